(* C08  Every emitted frame is spec-conformant and round-trips through the receiver.
   Statements only (printed by Coq from the lemmas they are closed with); proofs in Proof/RegpLemmas.v,
   Proof/RegpSpecLemmas.v, Proof/RegpFraming.v; model Model/Regp.v; independent reading of doc/regp.txt: Model/RegpSpec.v. *)
From Ufw Require Import Base.Bits Base.Errno Model.Crc Model.ByteBuffer Model.Endpoints Model.Varint Model.Slip Model.Lenp
  Model.Regp Model.RegpSpec Proof.LenpLemmas Proof.RegpFraming Proof.RegpLemmas Proof.RegpSpecLemmas.
From Coq Require Import ZArith String List.
From Ufw Require Import Base.Cexpr Gen.Consts Gen.RegpMotvGen Proof.RegpMotvSweep Proof.RegpMotvT.
From Coq Require Import Bool Lia.
Local Open Scope N_scope.
Local Open Scope bool_scope.

(* TRANSLATOR TIE (Gen/RegpMotvGen.v is regenerated from src/register-protocol.c on every check): the first header word that make_motv assembles with shifts and ors in 16/32-bit arithmetic - version, frame type, option bits, meta code - is the number the model computes, for every instance, memory semantics, meta code (8 bits, of which the frame keeps 4), frame type and block size; the enumeration constants and MSEM_* macros are the ones tools/consts2coq.py reads from the source *)
Theorem C08_T_first_header_word :
  forall (p : regp) (ms : msem) (meta type n : N),
         meta < 256 ->
         type < 16 ->
         eval
           (envM (Z.of_N c_RP_MEMTYPE_8) (Z.of_N c_RP_MEMTYPE_16) (Z.of_N c_RP_EP_SERIAL) (Z.of_N c_RP_EP_TCP)
              (Z.of_N c_RP_FRAME_READ_REQUEST) (Z.of_N c_MSEM_AUTO) (Z.of_N c_MSEM_8BIT) (Z.of_N c_MSEM_16BIT)
              (g_mem16 p) (g_serial p) ms (Z.of_N meta) (Z.of_N type) (Z.of_N n)) (fun _ : string => []) c_make_motv =
         Z.of_N (make_motv p ms meta type n).
Proof. exact (@make_motv_tie_source). Qed.
Print Assumptions C08_T_first_header_word.

(* every emitter (read/write requests 8/16 bit, acknowledge, eleven error responses, meta) sends framing(header ++ payload) of one header encoder *)
Theorem C08_emitters_are_conforming_frames :
  forall (p : regp) (kind ftype fseq addr n val : N) (pl : list N),
         emit_valid p kind ftype fseq addr n val pl ->
         let
         '(ms, type, meta, seq, n', pl') := emit_descr p kind ftype fseq n val pl in
          fst (emit p kind ftype fseq addr n val pl) =
          frame_wire p (encode_header p ms type meta seq (if kind =? 30 then 0 else addr) n' (crc pl')) pl'.
Proof. exact (@emit_eq). Qed.
Print Assumptions C08_emitters_are_conforming_frames.

(* with arguments in range, the frame is conforming: existing type/code pair, field ranges, payload size = block size in the frame's word size *)
Theorem C08_emitters_conform :
  forall (p : regp) (kind ftype fseq addr n val : N) (pl : list N),
         emit_valid p kind ftype fseq addr n val pl ->
         let
         '(ms, type, meta, seq, n', pl') := emit_descr p kind ftype fseq n val pl in
          conforming p ms type meta seq (if kind =? 30 then 0 else addr) n' pl' /\ (type = T_META -> n' = 0).
Proof. exact (@emit_conforming). Qed.
Print Assumptions C08_emitters_conform.

(* the receiver's header parser reads back type, option bits, code, sequence number, address, block size and both checksums *)
Theorem C08_header_round_trip :
  forall (p : regp) (ms : msem) (type meta seq addr n plc : N) (pl : list N),
         type_ok type meta = true ->
         seq < 65536 ->
         addr < 4294967296 ->
         n < 4294967296 ->
         plc < 65536 ->
         parse_header (encode_header p ms type meta seq addr n plc ++ pl) =
         inr (emitted_frame p ms type meta seq addr n plc pl).
Proof. exact (@parse_emitted). Qed.
Print Assumptions C08_header_round_trip.

(* and the payload checks pass: the frame is accepted with exactly the payload octets that were sent *)
Theorem C08_frame_accepted :
  forall (p : regp) (ms : msem) (type meta seq addr n : N) (pl : list N),
         conforming p ms type meta seq addr n pl ->
         parse_frame (encode_header p ms type meta seq addr n (crc pl) ++ pl) =
         inr (emitted_frame p ms type meta seq addr n (crc pl) pl).
Proof. exact (@parse_frame_emitted). Qed.
Print Assumptions C08_frame_accepted.

(* framing round trip on both transports: SLIP (serial) and varint length prefix (TCP), any payload octets incl. SLIP control characters, any rest of stream *)
Theorem C08_deframe :
  forall (p : regp) (oct : bool) (hdr pl r : list N) (calls : N),
         N.of_nat (Datatypes.length (hdr ++ pl)) < 2 ^ 64 ->
         exists calls' : N,
           deframe p (plain_src oct (frame_wire p hdr pl ++ r) calls) = Some (None, hdr ++ pl, plain_src oct r calls').
Proof. exact (@deframe_frame_wire). Qed.
Print Assumptions C08_deframe.

(* the library's receiver on the same transport hands out exactly the emitted frame, sends nothing, and leaves the rest of the stream *)
Theorem C08_received_by_own_receiver :
  forall (p q : regp) (ms : msem) (type meta seq addr n : N) (pl : list N) (oct : bool) (r : list N) (calls : N),
         g_serial q = g_serial p ->
         conforming p ms type meta seq addr n pl ->
         N.of_nat (Datatypes.length (encode_header p ms type meta seq addr n (crc pl) ++ pl)) <=
         g_blocksize q - SIZEOF_RPFRAME ->
         exists calls' : N,
           regp_recv q (plain_src oct (frame_wire p (encode_header p ms type meta seq addr n (crc pl)) pl ++ r) calls)
             true =
           Some
             {|
               rr_rc := RcOk;
               rr_errid := None;
               rr_frame := Some (emitted_frame p ms type meta seq addr n (crc pl) pl);
               rr_block_to_caller := true;
               rr_allocated := true;
               rr_freed_by_recv := false;
               rr_reply := [];
               rr_rest := plain_src oct r calls'
             |}.
Proof. exact (@recv_emitted). Qed.
Print Assumptions C08_received_by_own_receiver.

(* header ++ payload equal the octets of the independent reading: big-endian fields, CRC-16/ARC header and payload checksums exactly on serial links, payload checksum only with payload *)
Theorem C08_wire_is_what_the_document_prescribes :
  forall (p : regp) (ms : msem) (type meta seq addr n : N) (pl : list N),
         conforming p ms type meta seq addr n pl ->
         (type = T_META -> n = 0) ->
         encode_header p ms type meta seq addr n (crc pl) ++ pl =
         spec_raw (emitted_fields p ms type meta seq addr n pl) pl.
Proof. exact (@emitted_is_spec). Qed.
Print Assumptions C08_wire_is_what_the_document_prescribes.

(* successive requests of a session carry sequence numbers increasing by one modulo 2^16 *)
Theorem C08_sequence_numbers :
  forall (rs : list request) (p : regp),
         g_seq p < 65536 ->
         snd (do_requests p rs) = with_seq p ((g_seq p + N.of_nat (Datatypes.length rs)) mod 65536) /\
         (forall (k : nat) (r : request),
          nth_error rs k = Some r ->
          nth_error (fst (do_requests p rs)) k =
          Some (fst (do_request (with_seq p ((g_seq p + N.of_nat k) mod 65536)) r))).
Proof. exact (@requests_sequence). Qed.
Print Assumptions C08_sequence_numbers.


(* the premises are satisfiable: a 16-bit write request of two words on a serial link *)
Example C08_nonvacuous :
  let p := {| g_mem16 := true; g_serial := true; g_seq := 65535; g_blocksize := 128 |} in
  emit_valid p 3 0 0 100 2 0 [192; 219; 3; 4] /\
  fst (emit p 3 0 0 100 2 0 [192; 219; 3; 4])
  = [7; 32; 255; 255; 0; 0; 0; 100; 0; 0; 0; 2; 86; 94; 8; 77; 219; 220; 219; 221; 3; 4; 192].
Proof.
  split; [|vm_compute; reflexivity].
  unfold emit_valid, octets; cbn; repeat split; try lia; try discriminate.
  repeat (constructor; [lia|]). constructor.
Qed.
