(* C15  Endian codecs place and fetch every value byte-exactly.
   Statements only.  The functions are those of Gen/BfGen_{LB,LM,BM}.v, re-translated from
   include/ufw/binary-format.h on every run (tools/bf2coq.py) for three configurations:
     LB little-endian host, __builtin_bswap (the build's configuration)
     LM little-endian host, mask-and-shift swaps        BM big-endian host, mask-and-shift swaps
   and the proofs are the regenerated Gen/BfProofs_<cfg>.v.  Vocabulary (Model/BinFmt.v): rd mem pos k = the
   k octets at pos; wr mem pos xs = mem with xs stored at pos; lebZ/bebZ k v = the k low octets of v, least /
   most significant first; oflZ/ofbZ their inverses; sextZ w = two's complement reading of w bits. *)
From Ufw Require Import Base.Bits Base.Cexpr Model.BinFmt Proof.BinFmtLemmas.
From Ufw Require Gen.BfGen_LB Gen.BfGen_LM Gen.BfGen_BM Gen.BfProofs_LB Gen.BfProofs_LM Gen.BfProofs_BM.
From Coq Require Import ZArith.
Local Open Scope Z_scope.

(* ---- what the vocabulary means: storing changes exactly the k octets, loading them back gives the value ---- *)
Theorem C15_wr_frame : forall xs mem pos i, (i < pos \/ pos + List.length xs <= i)%nat -> nth i (wr mem pos xs) 0 = nth i mem 0.
Proof. exact wr_frame. Qed.
Print Assumptions C15_wr_frame.
Theorem C15_wr_length : forall mem pos xs, List.length (wr mem pos xs) = List.length mem.
Proof. exact wr_length. Qed.
Print Assumptions C15_wr_length.
Theorem C15_rd_wr : forall mem pos xs, (pos + List.length xs <= List.length mem)%nat -> rd (wr mem pos xs) pos (List.length xs) = xs.
Proof. exact rd_wr. Qed.
Print Assumptions C15_rd_wr.
Theorem C15_le_roundtrip : forall k v, oflZ (lebZ k v) = v mod 256 ^ Z.of_nat k.
Proof. exact oflZ_lebZ. Qed.
Print Assumptions C15_le_roundtrip.
Theorem C15_be_roundtrip : forall k v, ofbZ (bebZ k v) = v mod 256 ^ Z.of_nat k.
Proof. exact ofbZ_bebZ. Qed.
Print Assumptions C15_be_roundtrip.
Theorem C15_signed_roundtrip : forall w v, 0 < w -> - 2 ^ (w - 1) <= v < 2 ^ (w - 1) -> sextZ w (v mod 2 ^ w) = v.
Proof. exact sext_mod. Qed.
Print Assumptions C15_signed_roundtrip.
Theorem C15_swap_involutive : forall k v, 0 <= v < 256 ^ Z.of_nat k -> bswap k (bswap k v) = v.
Proof. exact bswap_involutive. Qed.
Print Assumptions C15_swap_involutive.
Theorem C15_swap_range : forall k v, 0 <= bswap k v < 256 ^ Z.of_nat k.
Proof. exact bswap_range. Qed.
Print Assumptions C15_swap_range.
Theorem C15_swap_reverses : forall k v, lebZ k (bswap k v) = rev (lebZ k v).
Proof. exact lebZ_bswap. Qed.
Print Assumptions C15_swap_reverses.

(* ======================= configuration LB ======================= *)
Theorem C15_LB_swap :
  (forall v, 0 <= v < 65536 -> BfGen_LB.bf_swap16 v = bswap 2 v) /\
  (forall v, 0 <= v < 4294967296 -> BfGen_LB.bf_swap24 v = bswap 3 v) /\
  (forall v, 0 <= v < 4294967296 -> BfGen_LB.bf_swap32 v = bswap 4 v) /\
  (forall v, 0 <= v < 18446744073709551616 -> BfGen_LB.bf_swap40 v = bswap 5 v) /\
  (forall v, 0 <= v < 18446744073709551616 -> BfGen_LB.bf_swap48 v = bswap 6 v) /\
  (forall v, 0 <= v < 18446744073709551616 -> BfGen_LB.bf_swap56 v = bswap 7 v) /\
  (forall v, 0 <= v < 18446744073709551616 -> BfGen_LB.bf_swap64 v = bswap 8 v).
Proof. exact (conj BfProofs_LB.swap16_ok (conj BfProofs_LB.swap24_ok (conj BfProofs_LB.swap32_ok (conj BfProofs_LB.swap40_ok (conj BfProofs_LB.swap48_ok (conj BfProofs_LB.swap56_ok BfProofs_LB.swap64_ok)))))). Qed.
Print Assumptions C15_LB_swap.

Theorem C15_LB_ref_unsigned :
  (forall mem pos, BfGen_LB.bf_ref_u16n mem pos = from_host BfGen_LB.big (rd mem pos 2)) /\
  (forall mem pos, octetsZ mem -> BfGen_LB.bf_ref_u16b mem pos = ofbZ (rd mem pos 2)) /\
  (forall mem pos, octetsZ mem -> BfGen_LB.bf_ref_u16l mem pos = oflZ (rd mem pos 2)) /\
  (forall mem pos, BfGen_LB.bf_ref_u24n mem pos = from_host BfGen_LB.big (rd mem pos 3)) /\
  (forall mem pos, octetsZ mem -> BfGen_LB.bf_ref_u24b mem pos = ofbZ (rd mem pos 3)) /\
  (forall mem pos, octetsZ mem -> BfGen_LB.bf_ref_u24l mem pos = oflZ (rd mem pos 3)) /\
  (forall mem pos, BfGen_LB.bf_ref_u32n mem pos = from_host BfGen_LB.big (rd mem pos 4)) /\
  (forall mem pos, octetsZ mem -> BfGen_LB.bf_ref_u32b mem pos = ofbZ (rd mem pos 4)) /\
  (forall mem pos, octetsZ mem -> BfGen_LB.bf_ref_u32l mem pos = oflZ (rd mem pos 4)) /\
  (forall mem pos, BfGen_LB.bf_ref_u40n mem pos = from_host BfGen_LB.big (rd mem pos 5)) /\
  (forall mem pos, octetsZ mem -> BfGen_LB.bf_ref_u40b mem pos = ofbZ (rd mem pos 5)) /\
  (forall mem pos, octetsZ mem -> BfGen_LB.bf_ref_u40l mem pos = oflZ (rd mem pos 5)) /\
  (forall mem pos, BfGen_LB.bf_ref_u48n mem pos = from_host BfGen_LB.big (rd mem pos 6)) /\
  (forall mem pos, octetsZ mem -> BfGen_LB.bf_ref_u48b mem pos = ofbZ (rd mem pos 6)) /\
  (forall mem pos, octetsZ mem -> BfGen_LB.bf_ref_u48l mem pos = oflZ (rd mem pos 6)) /\
  (forall mem pos, BfGen_LB.bf_ref_u56n mem pos = from_host BfGen_LB.big (rd mem pos 7)) /\
  (forall mem pos, octetsZ mem -> BfGen_LB.bf_ref_u56b mem pos = ofbZ (rd mem pos 7)) /\
  (forall mem pos, octetsZ mem -> BfGen_LB.bf_ref_u56l mem pos = oflZ (rd mem pos 7)) /\
  (forall mem pos, BfGen_LB.bf_ref_u64n mem pos = from_host BfGen_LB.big (rd mem pos 8)) /\
  (forall mem pos, octetsZ mem -> BfGen_LB.bf_ref_u64b mem pos = ofbZ (rd mem pos 8)) /\
  (forall mem pos, octetsZ mem -> BfGen_LB.bf_ref_u64l mem pos = oflZ (rd mem pos 8)).
Proof. exact (conj BfProofs_LB.ref_u16n_ok (conj BfProofs_LB.ref_u16b_ok (conj BfProofs_LB.ref_u16l_ok (conj BfProofs_LB.ref_u24n_ok (conj BfProofs_LB.ref_u24b_ok (conj BfProofs_LB.ref_u24l_ok (conj BfProofs_LB.ref_u32n_ok (conj BfProofs_LB.ref_u32b_ok (conj BfProofs_LB.ref_u32l_ok (conj BfProofs_LB.ref_u40n_ok (conj BfProofs_LB.ref_u40b_ok (conj BfProofs_LB.ref_u40l_ok (conj BfProofs_LB.ref_u48n_ok (conj BfProofs_LB.ref_u48b_ok (conj BfProofs_LB.ref_u48l_ok (conj BfProofs_LB.ref_u56n_ok (conj BfProofs_LB.ref_u56b_ok (conj BfProofs_LB.ref_u56l_ok (conj BfProofs_LB.ref_u64n_ok (conj BfProofs_LB.ref_u64b_ok BfProofs_LB.ref_u64l_ok)))))))))))))))))))). Qed.
Print Assumptions C15_LB_ref_unsigned.

Theorem C15_LB_set_unsigned :
  (forall mem pos v, BfGen_LB.bf_set_u16n mem pos v = (wr mem pos (host_bytes BfGen_LB.big 2 v), (pos + 2)%nat)) /\
  (forall mem pos v, 0 <= v < 65536 -> BfGen_LB.bf_set_u16b mem pos v = (wr mem pos (bebZ 2 v), (pos + 2)%nat)) /\
  (forall mem pos v, 0 <= v < 65536 -> BfGen_LB.bf_set_u16l mem pos v = (wr mem pos (lebZ 2 v), (pos + 2)%nat)) /\
  (forall mem pos v, BfGen_LB.bf_set_u24n mem pos v = (wr mem pos (host_bytes BfGen_LB.big 3 v), (pos + 3)%nat)) /\
  (forall mem pos v, 0 <= v < 4294967296 -> BfGen_LB.bf_set_u24b mem pos v = (wr mem pos (bebZ 3 v), (pos + 3)%nat)) /\
  (forall mem pos v, 0 <= v < 4294967296 -> BfGen_LB.bf_set_u24l mem pos v = (wr mem pos (lebZ 3 v), (pos + 3)%nat)) /\
  (forall mem pos v, BfGen_LB.bf_set_u32n mem pos v = (wr mem pos (host_bytes BfGen_LB.big 4 v), (pos + 4)%nat)) /\
  (forall mem pos v, 0 <= v < 4294967296 -> BfGen_LB.bf_set_u32b mem pos v = (wr mem pos (bebZ 4 v), (pos + 4)%nat)) /\
  (forall mem pos v, 0 <= v < 4294967296 -> BfGen_LB.bf_set_u32l mem pos v = (wr mem pos (lebZ 4 v), (pos + 4)%nat)) /\
  (forall mem pos v, BfGen_LB.bf_set_u40n mem pos v = (wr mem pos (host_bytes BfGen_LB.big 5 v), (pos + 5)%nat)) /\
  (forall mem pos v, 0 <= v < 18446744073709551616 -> BfGen_LB.bf_set_u40b mem pos v = (wr mem pos (bebZ 5 v), (pos + 5)%nat)) /\
  (forall mem pos v, 0 <= v < 18446744073709551616 -> BfGen_LB.bf_set_u40l mem pos v = (wr mem pos (lebZ 5 v), (pos + 5)%nat)) /\
  (forall mem pos v, BfGen_LB.bf_set_u48n mem pos v = (wr mem pos (host_bytes BfGen_LB.big 6 v), (pos + 6)%nat)) /\
  (forall mem pos v, 0 <= v < 18446744073709551616 -> BfGen_LB.bf_set_u48b mem pos v = (wr mem pos (bebZ 6 v), (pos + 6)%nat)) /\
  (forall mem pos v, 0 <= v < 18446744073709551616 -> BfGen_LB.bf_set_u48l mem pos v = (wr mem pos (lebZ 6 v), (pos + 6)%nat)) /\
  (forall mem pos v, BfGen_LB.bf_set_u56n mem pos v = (wr mem pos (host_bytes BfGen_LB.big 7 v), (pos + 7)%nat)) /\
  (forall mem pos v, 0 <= v < 18446744073709551616 -> BfGen_LB.bf_set_u56b mem pos v = (wr mem pos (bebZ 7 v), (pos + 7)%nat)) /\
  (forall mem pos v, 0 <= v < 18446744073709551616 -> BfGen_LB.bf_set_u56l mem pos v = (wr mem pos (lebZ 7 v), (pos + 7)%nat)) /\
  (forall mem pos v, BfGen_LB.bf_set_u64n mem pos v = (wr mem pos (host_bytes BfGen_LB.big 8 v), (pos + 8)%nat)) /\
  (forall mem pos v, 0 <= v < 18446744073709551616 -> BfGen_LB.bf_set_u64b mem pos v = (wr mem pos (bebZ 8 v), (pos + 8)%nat)) /\
  (forall mem pos v, 0 <= v < 18446744073709551616 -> BfGen_LB.bf_set_u64l mem pos v = (wr mem pos (lebZ 8 v), (pos + 8)%nat)).
Proof. exact (conj BfProofs_LB.set_u16n_ok (conj BfProofs_LB.set_u16b_ok (conj BfProofs_LB.set_u16l_ok (conj BfProofs_LB.set_u24n_ok (conj BfProofs_LB.set_u24b_ok (conj BfProofs_LB.set_u24l_ok (conj BfProofs_LB.set_u32n_ok (conj BfProofs_LB.set_u32b_ok (conj BfProofs_LB.set_u32l_ok (conj BfProofs_LB.set_u40n_ok (conj BfProofs_LB.set_u40b_ok (conj BfProofs_LB.set_u40l_ok (conj BfProofs_LB.set_u48n_ok (conj BfProofs_LB.set_u48b_ok (conj BfProofs_LB.set_u48l_ok (conj BfProofs_LB.set_u56n_ok (conj BfProofs_LB.set_u56b_ok (conj BfProofs_LB.set_u56l_ok (conj BfProofs_LB.set_u64n_ok (conj BfProofs_LB.set_u64b_ok BfProofs_LB.set_u64l_ok)))))))))))))))))))). Qed.
Print Assumptions C15_LB_set_unsigned.

Theorem C15_LB_ref_signed :
  (forall mem pos, octetsZ mem -> BfGen_LB.bf_ref_s16n mem pos = sextZ 16 (BfGen_LB.bf_ref_u16n mem pos)) /\
  (forall mem pos, octetsZ mem -> BfGen_LB.bf_ref_s16b mem pos = sextZ 16 (BfGen_LB.bf_ref_u16b mem pos)) /\
  (forall mem pos, octetsZ mem -> BfGen_LB.bf_ref_s16l mem pos = sextZ 16 (BfGen_LB.bf_ref_u16l mem pos)) /\
  (forall mem pos, octetsZ mem -> BfGen_LB.bf_ref_s24n mem pos = sextZ 24 (BfGen_LB.bf_ref_u24n mem pos)) /\
  (forall mem pos, octetsZ mem -> BfGen_LB.bf_ref_s24b mem pos = sextZ 24 (BfGen_LB.bf_ref_u24b mem pos)) /\
  (forall mem pos, octetsZ mem -> BfGen_LB.bf_ref_s24l mem pos = sextZ 24 (BfGen_LB.bf_ref_u24l mem pos)) /\
  (forall mem pos, octetsZ mem -> BfGen_LB.bf_ref_s32n mem pos = sextZ 32 (BfGen_LB.bf_ref_u32n mem pos)) /\
  (forall mem pos, octetsZ mem -> BfGen_LB.bf_ref_s32b mem pos = sextZ 32 (BfGen_LB.bf_ref_u32b mem pos)) /\
  (forall mem pos, octetsZ mem -> BfGen_LB.bf_ref_s32l mem pos = sextZ 32 (BfGen_LB.bf_ref_u32l mem pos)) /\
  (forall mem pos, octetsZ mem -> BfGen_LB.bf_ref_s40n mem pos = sextZ 40 (BfGen_LB.bf_ref_u40n mem pos)) /\
  (forall mem pos, octetsZ mem -> BfGen_LB.bf_ref_s40b mem pos = sextZ 40 (BfGen_LB.bf_ref_u40b mem pos)) /\
  (forall mem pos, octetsZ mem -> BfGen_LB.bf_ref_s40l mem pos = sextZ 40 (BfGen_LB.bf_ref_u40l mem pos)) /\
  (forall mem pos, octetsZ mem -> BfGen_LB.bf_ref_s48n mem pos = sextZ 48 (BfGen_LB.bf_ref_u48n mem pos)) /\
  (forall mem pos, octetsZ mem -> BfGen_LB.bf_ref_s48b mem pos = sextZ 48 (BfGen_LB.bf_ref_u48b mem pos)) /\
  (forall mem pos, octetsZ mem -> BfGen_LB.bf_ref_s48l mem pos = sextZ 48 (BfGen_LB.bf_ref_u48l mem pos)) /\
  (forall mem pos, octetsZ mem -> BfGen_LB.bf_ref_s56n mem pos = sextZ 56 (BfGen_LB.bf_ref_u56n mem pos)) /\
  (forall mem pos, octetsZ mem -> BfGen_LB.bf_ref_s56b mem pos = sextZ 56 (BfGen_LB.bf_ref_u56b mem pos)) /\
  (forall mem pos, octetsZ mem -> BfGen_LB.bf_ref_s56l mem pos = sextZ 56 (BfGen_LB.bf_ref_u56l mem pos)) /\
  (forall mem pos, octetsZ mem -> BfGen_LB.bf_ref_s64n mem pos = sextZ 64 (BfGen_LB.bf_ref_u64n mem pos)) /\
  (forall mem pos, octetsZ mem -> BfGen_LB.bf_ref_s64b mem pos = sextZ 64 (BfGen_LB.bf_ref_u64b mem pos)) /\
  (forall mem pos, octetsZ mem -> BfGen_LB.bf_ref_s64l mem pos = sextZ 64 (BfGen_LB.bf_ref_u64l mem pos)).
Proof. exact (conj BfProofs_LB.ref_s16n_ok (conj BfProofs_LB.ref_s16b_ok (conj BfProofs_LB.ref_s16l_ok (conj BfProofs_LB.ref_s24n_ok (conj BfProofs_LB.ref_s24b_ok (conj BfProofs_LB.ref_s24l_ok (conj BfProofs_LB.ref_s32n_ok (conj BfProofs_LB.ref_s32b_ok (conj BfProofs_LB.ref_s32l_ok (conj BfProofs_LB.ref_s40n_ok (conj BfProofs_LB.ref_s40b_ok (conj BfProofs_LB.ref_s40l_ok (conj BfProofs_LB.ref_s48n_ok (conj BfProofs_LB.ref_s48b_ok (conj BfProofs_LB.ref_s48l_ok (conj BfProofs_LB.ref_s56n_ok (conj BfProofs_LB.ref_s56b_ok (conj BfProofs_LB.ref_s56l_ok (conj BfProofs_LB.ref_s64n_ok (conj BfProofs_LB.ref_s64b_ok BfProofs_LB.ref_s64l_ok)))))))))))))))))))). Qed.
Print Assumptions C15_LB_ref_signed.

Theorem C15_LB_set_signed :
  (forall mem pos v, BfGen_LB.bf_set_s16n mem pos v = BfGen_LB.bf_set_u16n mem pos (v mod 65536)) /\
  (forall mem pos v, BfGen_LB.bf_set_s16b mem pos v = BfGen_LB.bf_set_u16b mem pos (v mod 65536)) /\
  (forall mem pos v, BfGen_LB.bf_set_s16l mem pos v = BfGen_LB.bf_set_u16l mem pos (v mod 65536)) /\
  (forall mem pos v, BfGen_LB.bf_set_s24n mem pos v = BfGen_LB.bf_set_u24n mem pos (v mod 4294967296)) /\
  (forall mem pos v, BfGen_LB.bf_set_s24b mem pos v = BfGen_LB.bf_set_u24b mem pos (v mod 4294967296)) /\
  (forall mem pos v, BfGen_LB.bf_set_s24l mem pos v = BfGen_LB.bf_set_u24l mem pos (v mod 4294967296)) /\
  (forall mem pos v, BfGen_LB.bf_set_s32n mem pos v = BfGen_LB.bf_set_u32n mem pos (v mod 4294967296)) /\
  (forall mem pos v, BfGen_LB.bf_set_s32b mem pos v = BfGen_LB.bf_set_u32b mem pos (v mod 4294967296)) /\
  (forall mem pos v, BfGen_LB.bf_set_s32l mem pos v = BfGen_LB.bf_set_u32l mem pos (v mod 4294967296)) /\
  (forall mem pos v, BfGen_LB.bf_set_s40n mem pos v = BfGen_LB.bf_set_u40n mem pos (v mod 18446744073709551616)) /\
  (forall mem pos v, BfGen_LB.bf_set_s40b mem pos v = BfGen_LB.bf_set_u40b mem pos (v mod 18446744073709551616)) /\
  (forall mem pos v, BfGen_LB.bf_set_s40l mem pos v = BfGen_LB.bf_set_u40l mem pos (v mod 18446744073709551616)) /\
  (forall mem pos v, BfGen_LB.bf_set_s48n mem pos v = BfGen_LB.bf_set_u48n mem pos (v mod 18446744073709551616)) /\
  (forall mem pos v, BfGen_LB.bf_set_s48b mem pos v = BfGen_LB.bf_set_u48b mem pos (v mod 18446744073709551616)) /\
  (forall mem pos v, BfGen_LB.bf_set_s48l mem pos v = BfGen_LB.bf_set_u48l mem pos (v mod 18446744073709551616)) /\
  (forall mem pos v, BfGen_LB.bf_set_s56n mem pos v = BfGen_LB.bf_set_u56n mem pos (v mod 18446744073709551616)) /\
  (forall mem pos v, BfGen_LB.bf_set_s56b mem pos v = BfGen_LB.bf_set_u56b mem pos (v mod 18446744073709551616)) /\
  (forall mem pos v, BfGen_LB.bf_set_s56l mem pos v = BfGen_LB.bf_set_u56l mem pos (v mod 18446744073709551616)) /\
  (forall mem pos v, BfGen_LB.bf_set_s64n mem pos v = BfGen_LB.bf_set_u64n mem pos (v mod 18446744073709551616)) /\
  (forall mem pos v, BfGen_LB.bf_set_s64b mem pos v = BfGen_LB.bf_set_u64b mem pos (v mod 18446744073709551616)) /\
  (forall mem pos v, BfGen_LB.bf_set_s64l mem pos v = BfGen_LB.bf_set_u64l mem pos (v mod 18446744073709551616)).
Proof. exact (conj BfProofs_LB.set_s16n_ok (conj BfProofs_LB.set_s16b_ok (conj BfProofs_LB.set_s16l_ok (conj BfProofs_LB.set_s24n_ok (conj BfProofs_LB.set_s24b_ok (conj BfProofs_LB.set_s24l_ok (conj BfProofs_LB.set_s32n_ok (conj BfProofs_LB.set_s32b_ok (conj BfProofs_LB.set_s32l_ok (conj BfProofs_LB.set_s40n_ok (conj BfProofs_LB.set_s40b_ok (conj BfProofs_LB.set_s40l_ok (conj BfProofs_LB.set_s48n_ok (conj BfProofs_LB.set_s48b_ok (conj BfProofs_LB.set_s48l_ok (conj BfProofs_LB.set_s56n_ok (conj BfProofs_LB.set_s56b_ok (conj BfProofs_LB.set_s56l_ok (conj BfProofs_LB.set_s64n_ok (conj BfProofs_LB.set_s64b_ok BfProofs_LB.set_s64l_ok)))))))))))))))))))). Qed.
Print Assumptions C15_LB_set_signed.

(* floats are carried as their bit patterns: bit-identical, NaN payloads included *)
Theorem C15_LB_float :
  (forall mem pos, BfGen_LB.bf_ref_f32n mem pos = BfGen_LB.bf_ref_u32n mem pos) /\
  (forall mem pos v, BfGen_LB.bf_set_f32n mem pos v = BfGen_LB.bf_set_u32n mem pos v) /\
  (forall mem pos, BfGen_LB.bf_ref_f32b mem pos = BfGen_LB.bf_ref_u32b mem pos) /\
  (forall mem pos v, BfGen_LB.bf_set_f32b mem pos v = BfGen_LB.bf_set_u32b mem pos v) /\
  (forall mem pos, BfGen_LB.bf_ref_f32l mem pos = BfGen_LB.bf_ref_u32l mem pos) /\
  (forall mem pos v, BfGen_LB.bf_set_f32l mem pos v = BfGen_LB.bf_set_u32l mem pos v) /\
  (forall mem pos, BfGen_LB.bf_ref_f64n mem pos = BfGen_LB.bf_ref_u64n mem pos) /\
  (forall mem pos v, BfGen_LB.bf_set_f64n mem pos v = BfGen_LB.bf_set_u64n mem pos v) /\
  (forall mem pos, BfGen_LB.bf_ref_f64b mem pos = BfGen_LB.bf_ref_u64b mem pos) /\
  (forall mem pos v, BfGen_LB.bf_set_f64b mem pos v = BfGen_LB.bf_set_u64b mem pos v) /\
  (forall mem pos, BfGen_LB.bf_ref_f64l mem pos = BfGen_LB.bf_ref_u64l mem pos) /\
  (forall mem pos v, BfGen_LB.bf_set_f64l mem pos v = BfGen_LB.bf_set_u64l mem pos v).
Proof. exact (conj BfProofs_LB.ref_f32n_ok (conj BfProofs_LB.set_f32n_ok (conj BfProofs_LB.ref_f32b_ok (conj BfProofs_LB.set_f32b_ok (conj BfProofs_LB.ref_f32l_ok (conj BfProofs_LB.set_f32l_ok (conj BfProofs_LB.ref_f64n_ok (conj BfProofs_LB.set_f64n_ok (conj BfProofs_LB.ref_f64b_ok (conj BfProofs_LB.set_f64b_ok (conj BfProofs_LB.ref_f64l_ok BfProofs_LB.set_f64l_ok))))))))))). Qed.
Print Assumptions C15_LB_float.

Theorem C15_LB_inrange :
  (forall v, 0 <= v < 4294967296 -> BfGen_LB.bf_inrange_u24 v = if v <? 16777216 then 1 else 0) /\
  (forall v, -2147483648 <= v < 2147483648 -> BfGen_LB.bf_inrange_s24 v = if (-8388608 <=? v) && (v <? 8388608) then 1 else 0) /\
  (forall v, 0 <= v < 18446744073709551616 -> BfGen_LB.bf_inrange_u40 v = if v <? 1099511627776 then 1 else 0) /\
  (forall v, -9223372036854775808 <= v < 9223372036854775808 -> BfGen_LB.bf_inrange_s40 v = if (-549755813888 <=? v) && (v <? 549755813888) then 1 else 0) /\
  (forall v, 0 <= v < 18446744073709551616 -> BfGen_LB.bf_inrange_u48 v = if v <? 281474976710656 then 1 else 0) /\
  (forall v, -9223372036854775808 <= v < 9223372036854775808 -> BfGen_LB.bf_inrange_s48 v = if (-140737488355328 <=? v) && (v <? 140737488355328) then 1 else 0) /\
  (forall v, 0 <= v < 18446744073709551616 -> BfGen_LB.bf_inrange_u56 v = if v <? 72057594037927936 then 1 else 0) /\
  (forall v, -9223372036854775808 <= v < 9223372036854775808 -> BfGen_LB.bf_inrange_s56 v = if (-36028797018963968 <=? v) && (v <? 36028797018963968) then 1 else 0).
Proof. exact (conj BfProofs_LB.inrange_u24_ok (conj BfProofs_LB.inrange_s24_ok (conj BfProofs_LB.inrange_u40_ok (conj BfProofs_LB.inrange_s40_ok (conj BfProofs_LB.inrange_u48_ok (conj BfProofs_LB.inrange_s48_ok (conj BfProofs_LB.inrange_u56_ok BfProofs_LB.inrange_s56_ok))))))). Qed.
Print Assumptions C15_LB_inrange.

(* ======================= configuration LM ======================= *)
Theorem C15_LM_swap :
  (forall v, 0 <= v < 65536 -> BfGen_LM.bf_swap16 v = bswap 2 v) /\
  (forall v, 0 <= v < 4294967296 -> BfGen_LM.bf_swap24 v = bswap 3 v) /\
  (forall v, 0 <= v < 4294967296 -> BfGen_LM.bf_swap32 v = bswap 4 v) /\
  (forall v, 0 <= v < 18446744073709551616 -> BfGen_LM.bf_swap40 v = bswap 5 v) /\
  (forall v, 0 <= v < 18446744073709551616 -> BfGen_LM.bf_swap48 v = bswap 6 v) /\
  (forall v, 0 <= v < 18446744073709551616 -> BfGen_LM.bf_swap56 v = bswap 7 v) /\
  (forall v, 0 <= v < 18446744073709551616 -> BfGen_LM.bf_swap64 v = bswap 8 v).
Proof. exact (conj BfProofs_LM.swap16_ok (conj BfProofs_LM.swap24_ok (conj BfProofs_LM.swap32_ok (conj BfProofs_LM.swap40_ok (conj BfProofs_LM.swap48_ok (conj BfProofs_LM.swap56_ok BfProofs_LM.swap64_ok)))))). Qed.
Print Assumptions C15_LM_swap.

Theorem C15_LM_ref_unsigned :
  (forall mem pos, BfGen_LM.bf_ref_u16n mem pos = from_host BfGen_LM.big (rd mem pos 2)) /\
  (forall mem pos, octetsZ mem -> BfGen_LM.bf_ref_u16b mem pos = ofbZ (rd mem pos 2)) /\
  (forall mem pos, octetsZ mem -> BfGen_LM.bf_ref_u16l mem pos = oflZ (rd mem pos 2)) /\
  (forall mem pos, BfGen_LM.bf_ref_u24n mem pos = from_host BfGen_LM.big (rd mem pos 3)) /\
  (forall mem pos, octetsZ mem -> BfGen_LM.bf_ref_u24b mem pos = ofbZ (rd mem pos 3)) /\
  (forall mem pos, octetsZ mem -> BfGen_LM.bf_ref_u24l mem pos = oflZ (rd mem pos 3)) /\
  (forall mem pos, BfGen_LM.bf_ref_u32n mem pos = from_host BfGen_LM.big (rd mem pos 4)) /\
  (forall mem pos, octetsZ mem -> BfGen_LM.bf_ref_u32b mem pos = ofbZ (rd mem pos 4)) /\
  (forall mem pos, octetsZ mem -> BfGen_LM.bf_ref_u32l mem pos = oflZ (rd mem pos 4)) /\
  (forall mem pos, BfGen_LM.bf_ref_u40n mem pos = from_host BfGen_LM.big (rd mem pos 5)) /\
  (forall mem pos, octetsZ mem -> BfGen_LM.bf_ref_u40b mem pos = ofbZ (rd mem pos 5)) /\
  (forall mem pos, octetsZ mem -> BfGen_LM.bf_ref_u40l mem pos = oflZ (rd mem pos 5)) /\
  (forall mem pos, BfGen_LM.bf_ref_u48n mem pos = from_host BfGen_LM.big (rd mem pos 6)) /\
  (forall mem pos, octetsZ mem -> BfGen_LM.bf_ref_u48b mem pos = ofbZ (rd mem pos 6)) /\
  (forall mem pos, octetsZ mem -> BfGen_LM.bf_ref_u48l mem pos = oflZ (rd mem pos 6)) /\
  (forall mem pos, BfGen_LM.bf_ref_u56n mem pos = from_host BfGen_LM.big (rd mem pos 7)) /\
  (forall mem pos, octetsZ mem -> BfGen_LM.bf_ref_u56b mem pos = ofbZ (rd mem pos 7)) /\
  (forall mem pos, octetsZ mem -> BfGen_LM.bf_ref_u56l mem pos = oflZ (rd mem pos 7)) /\
  (forall mem pos, BfGen_LM.bf_ref_u64n mem pos = from_host BfGen_LM.big (rd mem pos 8)) /\
  (forall mem pos, octetsZ mem -> BfGen_LM.bf_ref_u64b mem pos = ofbZ (rd mem pos 8)) /\
  (forall mem pos, octetsZ mem -> BfGen_LM.bf_ref_u64l mem pos = oflZ (rd mem pos 8)).
Proof. exact (conj BfProofs_LM.ref_u16n_ok (conj BfProofs_LM.ref_u16b_ok (conj BfProofs_LM.ref_u16l_ok (conj BfProofs_LM.ref_u24n_ok (conj BfProofs_LM.ref_u24b_ok (conj BfProofs_LM.ref_u24l_ok (conj BfProofs_LM.ref_u32n_ok (conj BfProofs_LM.ref_u32b_ok (conj BfProofs_LM.ref_u32l_ok (conj BfProofs_LM.ref_u40n_ok (conj BfProofs_LM.ref_u40b_ok (conj BfProofs_LM.ref_u40l_ok (conj BfProofs_LM.ref_u48n_ok (conj BfProofs_LM.ref_u48b_ok (conj BfProofs_LM.ref_u48l_ok (conj BfProofs_LM.ref_u56n_ok (conj BfProofs_LM.ref_u56b_ok (conj BfProofs_LM.ref_u56l_ok (conj BfProofs_LM.ref_u64n_ok (conj BfProofs_LM.ref_u64b_ok BfProofs_LM.ref_u64l_ok)))))))))))))))))))). Qed.
Print Assumptions C15_LM_ref_unsigned.

Theorem C15_LM_set_unsigned :
  (forall mem pos v, BfGen_LM.bf_set_u16n mem pos v = (wr mem pos (host_bytes BfGen_LM.big 2 v), (pos + 2)%nat)) /\
  (forall mem pos v, 0 <= v < 65536 -> BfGen_LM.bf_set_u16b mem pos v = (wr mem pos (bebZ 2 v), (pos + 2)%nat)) /\
  (forall mem pos v, 0 <= v < 65536 -> BfGen_LM.bf_set_u16l mem pos v = (wr mem pos (lebZ 2 v), (pos + 2)%nat)) /\
  (forall mem pos v, BfGen_LM.bf_set_u24n mem pos v = (wr mem pos (host_bytes BfGen_LM.big 3 v), (pos + 3)%nat)) /\
  (forall mem pos v, 0 <= v < 4294967296 -> BfGen_LM.bf_set_u24b mem pos v = (wr mem pos (bebZ 3 v), (pos + 3)%nat)) /\
  (forall mem pos v, 0 <= v < 4294967296 -> BfGen_LM.bf_set_u24l mem pos v = (wr mem pos (lebZ 3 v), (pos + 3)%nat)) /\
  (forall mem pos v, BfGen_LM.bf_set_u32n mem pos v = (wr mem pos (host_bytes BfGen_LM.big 4 v), (pos + 4)%nat)) /\
  (forall mem pos v, 0 <= v < 4294967296 -> BfGen_LM.bf_set_u32b mem pos v = (wr mem pos (bebZ 4 v), (pos + 4)%nat)) /\
  (forall mem pos v, 0 <= v < 4294967296 -> BfGen_LM.bf_set_u32l mem pos v = (wr mem pos (lebZ 4 v), (pos + 4)%nat)) /\
  (forall mem pos v, BfGen_LM.bf_set_u40n mem pos v = (wr mem pos (host_bytes BfGen_LM.big 5 v), (pos + 5)%nat)) /\
  (forall mem pos v, 0 <= v < 18446744073709551616 -> BfGen_LM.bf_set_u40b mem pos v = (wr mem pos (bebZ 5 v), (pos + 5)%nat)) /\
  (forall mem pos v, 0 <= v < 18446744073709551616 -> BfGen_LM.bf_set_u40l mem pos v = (wr mem pos (lebZ 5 v), (pos + 5)%nat)) /\
  (forall mem pos v, BfGen_LM.bf_set_u48n mem pos v = (wr mem pos (host_bytes BfGen_LM.big 6 v), (pos + 6)%nat)) /\
  (forall mem pos v, 0 <= v < 18446744073709551616 -> BfGen_LM.bf_set_u48b mem pos v = (wr mem pos (bebZ 6 v), (pos + 6)%nat)) /\
  (forall mem pos v, 0 <= v < 18446744073709551616 -> BfGen_LM.bf_set_u48l mem pos v = (wr mem pos (lebZ 6 v), (pos + 6)%nat)) /\
  (forall mem pos v, BfGen_LM.bf_set_u56n mem pos v = (wr mem pos (host_bytes BfGen_LM.big 7 v), (pos + 7)%nat)) /\
  (forall mem pos v, 0 <= v < 18446744073709551616 -> BfGen_LM.bf_set_u56b mem pos v = (wr mem pos (bebZ 7 v), (pos + 7)%nat)) /\
  (forall mem pos v, 0 <= v < 18446744073709551616 -> BfGen_LM.bf_set_u56l mem pos v = (wr mem pos (lebZ 7 v), (pos + 7)%nat)) /\
  (forall mem pos v, BfGen_LM.bf_set_u64n mem pos v = (wr mem pos (host_bytes BfGen_LM.big 8 v), (pos + 8)%nat)) /\
  (forall mem pos v, 0 <= v < 18446744073709551616 -> BfGen_LM.bf_set_u64b mem pos v = (wr mem pos (bebZ 8 v), (pos + 8)%nat)) /\
  (forall mem pos v, 0 <= v < 18446744073709551616 -> BfGen_LM.bf_set_u64l mem pos v = (wr mem pos (lebZ 8 v), (pos + 8)%nat)).
Proof. exact (conj BfProofs_LM.set_u16n_ok (conj BfProofs_LM.set_u16b_ok (conj BfProofs_LM.set_u16l_ok (conj BfProofs_LM.set_u24n_ok (conj BfProofs_LM.set_u24b_ok (conj BfProofs_LM.set_u24l_ok (conj BfProofs_LM.set_u32n_ok (conj BfProofs_LM.set_u32b_ok (conj BfProofs_LM.set_u32l_ok (conj BfProofs_LM.set_u40n_ok (conj BfProofs_LM.set_u40b_ok (conj BfProofs_LM.set_u40l_ok (conj BfProofs_LM.set_u48n_ok (conj BfProofs_LM.set_u48b_ok (conj BfProofs_LM.set_u48l_ok (conj BfProofs_LM.set_u56n_ok (conj BfProofs_LM.set_u56b_ok (conj BfProofs_LM.set_u56l_ok (conj BfProofs_LM.set_u64n_ok (conj BfProofs_LM.set_u64b_ok BfProofs_LM.set_u64l_ok)))))))))))))))))))). Qed.
Print Assumptions C15_LM_set_unsigned.

Theorem C15_LM_ref_signed :
  (forall mem pos, octetsZ mem -> BfGen_LM.bf_ref_s16n mem pos = sextZ 16 (BfGen_LM.bf_ref_u16n mem pos)) /\
  (forall mem pos, octetsZ mem -> BfGen_LM.bf_ref_s16b mem pos = sextZ 16 (BfGen_LM.bf_ref_u16b mem pos)) /\
  (forall mem pos, octetsZ mem -> BfGen_LM.bf_ref_s16l mem pos = sextZ 16 (BfGen_LM.bf_ref_u16l mem pos)) /\
  (forall mem pos, octetsZ mem -> BfGen_LM.bf_ref_s24n mem pos = sextZ 24 (BfGen_LM.bf_ref_u24n mem pos)) /\
  (forall mem pos, octetsZ mem -> BfGen_LM.bf_ref_s24b mem pos = sextZ 24 (BfGen_LM.bf_ref_u24b mem pos)) /\
  (forall mem pos, octetsZ mem -> BfGen_LM.bf_ref_s24l mem pos = sextZ 24 (BfGen_LM.bf_ref_u24l mem pos)) /\
  (forall mem pos, octetsZ mem -> BfGen_LM.bf_ref_s32n mem pos = sextZ 32 (BfGen_LM.bf_ref_u32n mem pos)) /\
  (forall mem pos, octetsZ mem -> BfGen_LM.bf_ref_s32b mem pos = sextZ 32 (BfGen_LM.bf_ref_u32b mem pos)) /\
  (forall mem pos, octetsZ mem -> BfGen_LM.bf_ref_s32l mem pos = sextZ 32 (BfGen_LM.bf_ref_u32l mem pos)) /\
  (forall mem pos, octetsZ mem -> BfGen_LM.bf_ref_s40n mem pos = sextZ 40 (BfGen_LM.bf_ref_u40n mem pos)) /\
  (forall mem pos, octetsZ mem -> BfGen_LM.bf_ref_s40b mem pos = sextZ 40 (BfGen_LM.bf_ref_u40b mem pos)) /\
  (forall mem pos, octetsZ mem -> BfGen_LM.bf_ref_s40l mem pos = sextZ 40 (BfGen_LM.bf_ref_u40l mem pos)) /\
  (forall mem pos, octetsZ mem -> BfGen_LM.bf_ref_s48n mem pos = sextZ 48 (BfGen_LM.bf_ref_u48n mem pos)) /\
  (forall mem pos, octetsZ mem -> BfGen_LM.bf_ref_s48b mem pos = sextZ 48 (BfGen_LM.bf_ref_u48b mem pos)) /\
  (forall mem pos, octetsZ mem -> BfGen_LM.bf_ref_s48l mem pos = sextZ 48 (BfGen_LM.bf_ref_u48l mem pos)) /\
  (forall mem pos, octetsZ mem -> BfGen_LM.bf_ref_s56n mem pos = sextZ 56 (BfGen_LM.bf_ref_u56n mem pos)) /\
  (forall mem pos, octetsZ mem -> BfGen_LM.bf_ref_s56b mem pos = sextZ 56 (BfGen_LM.bf_ref_u56b mem pos)) /\
  (forall mem pos, octetsZ mem -> BfGen_LM.bf_ref_s56l mem pos = sextZ 56 (BfGen_LM.bf_ref_u56l mem pos)) /\
  (forall mem pos, octetsZ mem -> BfGen_LM.bf_ref_s64n mem pos = sextZ 64 (BfGen_LM.bf_ref_u64n mem pos)) /\
  (forall mem pos, octetsZ mem -> BfGen_LM.bf_ref_s64b mem pos = sextZ 64 (BfGen_LM.bf_ref_u64b mem pos)) /\
  (forall mem pos, octetsZ mem -> BfGen_LM.bf_ref_s64l mem pos = sextZ 64 (BfGen_LM.bf_ref_u64l mem pos)).
Proof. exact (conj BfProofs_LM.ref_s16n_ok (conj BfProofs_LM.ref_s16b_ok (conj BfProofs_LM.ref_s16l_ok (conj BfProofs_LM.ref_s24n_ok (conj BfProofs_LM.ref_s24b_ok (conj BfProofs_LM.ref_s24l_ok (conj BfProofs_LM.ref_s32n_ok (conj BfProofs_LM.ref_s32b_ok (conj BfProofs_LM.ref_s32l_ok (conj BfProofs_LM.ref_s40n_ok (conj BfProofs_LM.ref_s40b_ok (conj BfProofs_LM.ref_s40l_ok (conj BfProofs_LM.ref_s48n_ok (conj BfProofs_LM.ref_s48b_ok (conj BfProofs_LM.ref_s48l_ok (conj BfProofs_LM.ref_s56n_ok (conj BfProofs_LM.ref_s56b_ok (conj BfProofs_LM.ref_s56l_ok (conj BfProofs_LM.ref_s64n_ok (conj BfProofs_LM.ref_s64b_ok BfProofs_LM.ref_s64l_ok)))))))))))))))))))). Qed.
Print Assumptions C15_LM_ref_signed.

Theorem C15_LM_set_signed :
  (forall mem pos v, BfGen_LM.bf_set_s16n mem pos v = BfGen_LM.bf_set_u16n mem pos (v mod 65536)) /\
  (forall mem pos v, BfGen_LM.bf_set_s16b mem pos v = BfGen_LM.bf_set_u16b mem pos (v mod 65536)) /\
  (forall mem pos v, BfGen_LM.bf_set_s16l mem pos v = BfGen_LM.bf_set_u16l mem pos (v mod 65536)) /\
  (forall mem pos v, BfGen_LM.bf_set_s24n mem pos v = BfGen_LM.bf_set_u24n mem pos (v mod 4294967296)) /\
  (forall mem pos v, BfGen_LM.bf_set_s24b mem pos v = BfGen_LM.bf_set_u24b mem pos (v mod 4294967296)) /\
  (forall mem pos v, BfGen_LM.bf_set_s24l mem pos v = BfGen_LM.bf_set_u24l mem pos (v mod 4294967296)) /\
  (forall mem pos v, BfGen_LM.bf_set_s32n mem pos v = BfGen_LM.bf_set_u32n mem pos (v mod 4294967296)) /\
  (forall mem pos v, BfGen_LM.bf_set_s32b mem pos v = BfGen_LM.bf_set_u32b mem pos (v mod 4294967296)) /\
  (forall mem pos v, BfGen_LM.bf_set_s32l mem pos v = BfGen_LM.bf_set_u32l mem pos (v mod 4294967296)) /\
  (forall mem pos v, BfGen_LM.bf_set_s40n mem pos v = BfGen_LM.bf_set_u40n mem pos (v mod 18446744073709551616)) /\
  (forall mem pos v, BfGen_LM.bf_set_s40b mem pos v = BfGen_LM.bf_set_u40b mem pos (v mod 18446744073709551616)) /\
  (forall mem pos v, BfGen_LM.bf_set_s40l mem pos v = BfGen_LM.bf_set_u40l mem pos (v mod 18446744073709551616)) /\
  (forall mem pos v, BfGen_LM.bf_set_s48n mem pos v = BfGen_LM.bf_set_u48n mem pos (v mod 18446744073709551616)) /\
  (forall mem pos v, BfGen_LM.bf_set_s48b mem pos v = BfGen_LM.bf_set_u48b mem pos (v mod 18446744073709551616)) /\
  (forall mem pos v, BfGen_LM.bf_set_s48l mem pos v = BfGen_LM.bf_set_u48l mem pos (v mod 18446744073709551616)) /\
  (forall mem pos v, BfGen_LM.bf_set_s56n mem pos v = BfGen_LM.bf_set_u56n mem pos (v mod 18446744073709551616)) /\
  (forall mem pos v, BfGen_LM.bf_set_s56b mem pos v = BfGen_LM.bf_set_u56b mem pos (v mod 18446744073709551616)) /\
  (forall mem pos v, BfGen_LM.bf_set_s56l mem pos v = BfGen_LM.bf_set_u56l mem pos (v mod 18446744073709551616)) /\
  (forall mem pos v, BfGen_LM.bf_set_s64n mem pos v = BfGen_LM.bf_set_u64n mem pos (v mod 18446744073709551616)) /\
  (forall mem pos v, BfGen_LM.bf_set_s64b mem pos v = BfGen_LM.bf_set_u64b mem pos (v mod 18446744073709551616)) /\
  (forall mem pos v, BfGen_LM.bf_set_s64l mem pos v = BfGen_LM.bf_set_u64l mem pos (v mod 18446744073709551616)).
Proof. exact (conj BfProofs_LM.set_s16n_ok (conj BfProofs_LM.set_s16b_ok (conj BfProofs_LM.set_s16l_ok (conj BfProofs_LM.set_s24n_ok (conj BfProofs_LM.set_s24b_ok (conj BfProofs_LM.set_s24l_ok (conj BfProofs_LM.set_s32n_ok (conj BfProofs_LM.set_s32b_ok (conj BfProofs_LM.set_s32l_ok (conj BfProofs_LM.set_s40n_ok (conj BfProofs_LM.set_s40b_ok (conj BfProofs_LM.set_s40l_ok (conj BfProofs_LM.set_s48n_ok (conj BfProofs_LM.set_s48b_ok (conj BfProofs_LM.set_s48l_ok (conj BfProofs_LM.set_s56n_ok (conj BfProofs_LM.set_s56b_ok (conj BfProofs_LM.set_s56l_ok (conj BfProofs_LM.set_s64n_ok (conj BfProofs_LM.set_s64b_ok BfProofs_LM.set_s64l_ok)))))))))))))))))))). Qed.
Print Assumptions C15_LM_set_signed.

(* floats are carried as their bit patterns: bit-identical, NaN payloads included *)
Theorem C15_LM_float :
  (forall mem pos, BfGen_LM.bf_ref_f32n mem pos = BfGen_LM.bf_ref_u32n mem pos) /\
  (forall mem pos v, BfGen_LM.bf_set_f32n mem pos v = BfGen_LM.bf_set_u32n mem pos v) /\
  (forall mem pos, BfGen_LM.bf_ref_f32b mem pos = BfGen_LM.bf_ref_u32b mem pos) /\
  (forall mem pos v, BfGen_LM.bf_set_f32b mem pos v = BfGen_LM.bf_set_u32b mem pos v) /\
  (forall mem pos, BfGen_LM.bf_ref_f32l mem pos = BfGen_LM.bf_ref_u32l mem pos) /\
  (forall mem pos v, BfGen_LM.bf_set_f32l mem pos v = BfGen_LM.bf_set_u32l mem pos v) /\
  (forall mem pos, BfGen_LM.bf_ref_f64n mem pos = BfGen_LM.bf_ref_u64n mem pos) /\
  (forall mem pos v, BfGen_LM.bf_set_f64n mem pos v = BfGen_LM.bf_set_u64n mem pos v) /\
  (forall mem pos, BfGen_LM.bf_ref_f64b mem pos = BfGen_LM.bf_ref_u64b mem pos) /\
  (forall mem pos v, BfGen_LM.bf_set_f64b mem pos v = BfGen_LM.bf_set_u64b mem pos v) /\
  (forall mem pos, BfGen_LM.bf_ref_f64l mem pos = BfGen_LM.bf_ref_u64l mem pos) /\
  (forall mem pos v, BfGen_LM.bf_set_f64l mem pos v = BfGen_LM.bf_set_u64l mem pos v).
Proof. exact (conj BfProofs_LM.ref_f32n_ok (conj BfProofs_LM.set_f32n_ok (conj BfProofs_LM.ref_f32b_ok (conj BfProofs_LM.set_f32b_ok (conj BfProofs_LM.ref_f32l_ok (conj BfProofs_LM.set_f32l_ok (conj BfProofs_LM.ref_f64n_ok (conj BfProofs_LM.set_f64n_ok (conj BfProofs_LM.ref_f64b_ok (conj BfProofs_LM.set_f64b_ok (conj BfProofs_LM.ref_f64l_ok BfProofs_LM.set_f64l_ok))))))))))). Qed.
Print Assumptions C15_LM_float.

Theorem C15_LM_inrange :
  (forall v, 0 <= v < 4294967296 -> BfGen_LM.bf_inrange_u24 v = if v <? 16777216 then 1 else 0) /\
  (forall v, -2147483648 <= v < 2147483648 -> BfGen_LM.bf_inrange_s24 v = if (-8388608 <=? v) && (v <? 8388608) then 1 else 0) /\
  (forall v, 0 <= v < 18446744073709551616 -> BfGen_LM.bf_inrange_u40 v = if v <? 1099511627776 then 1 else 0) /\
  (forall v, -9223372036854775808 <= v < 9223372036854775808 -> BfGen_LM.bf_inrange_s40 v = if (-549755813888 <=? v) && (v <? 549755813888) then 1 else 0) /\
  (forall v, 0 <= v < 18446744073709551616 -> BfGen_LM.bf_inrange_u48 v = if v <? 281474976710656 then 1 else 0) /\
  (forall v, -9223372036854775808 <= v < 9223372036854775808 -> BfGen_LM.bf_inrange_s48 v = if (-140737488355328 <=? v) && (v <? 140737488355328) then 1 else 0) /\
  (forall v, 0 <= v < 18446744073709551616 -> BfGen_LM.bf_inrange_u56 v = if v <? 72057594037927936 then 1 else 0) /\
  (forall v, -9223372036854775808 <= v < 9223372036854775808 -> BfGen_LM.bf_inrange_s56 v = if (-36028797018963968 <=? v) && (v <? 36028797018963968) then 1 else 0).
Proof. exact (conj BfProofs_LM.inrange_u24_ok (conj BfProofs_LM.inrange_s24_ok (conj BfProofs_LM.inrange_u40_ok (conj BfProofs_LM.inrange_s40_ok (conj BfProofs_LM.inrange_u48_ok (conj BfProofs_LM.inrange_s48_ok (conj BfProofs_LM.inrange_u56_ok BfProofs_LM.inrange_s56_ok))))))). Qed.
Print Assumptions C15_LM_inrange.

(* ======================= configuration BM ======================= *)
Theorem C15_BM_swap :
  (forall v, 0 <= v < 65536 -> BfGen_BM.bf_swap16 v = bswap 2 v) /\
  (forall v, 0 <= v < 4294967296 -> BfGen_BM.bf_swap24 v = bswap 3 v) /\
  (forall v, 0 <= v < 4294967296 -> BfGen_BM.bf_swap32 v = bswap 4 v) /\
  (forall v, 0 <= v < 18446744073709551616 -> BfGen_BM.bf_swap40 v = bswap 5 v) /\
  (forall v, 0 <= v < 18446744073709551616 -> BfGen_BM.bf_swap48 v = bswap 6 v) /\
  (forall v, 0 <= v < 18446744073709551616 -> BfGen_BM.bf_swap56 v = bswap 7 v) /\
  (forall v, 0 <= v < 18446744073709551616 -> BfGen_BM.bf_swap64 v = bswap 8 v).
Proof. exact (conj BfProofs_BM.swap16_ok (conj BfProofs_BM.swap24_ok (conj BfProofs_BM.swap32_ok (conj BfProofs_BM.swap40_ok (conj BfProofs_BM.swap48_ok (conj BfProofs_BM.swap56_ok BfProofs_BM.swap64_ok)))))). Qed.
Print Assumptions C15_BM_swap.

Theorem C15_BM_ref_unsigned :
  (forall mem pos, BfGen_BM.bf_ref_u16n mem pos = from_host BfGen_BM.big (rd mem pos 2)) /\
  (forall mem pos, octetsZ mem -> BfGen_BM.bf_ref_u16b mem pos = ofbZ (rd mem pos 2)) /\
  (forall mem pos, octetsZ mem -> BfGen_BM.bf_ref_u16l mem pos = oflZ (rd mem pos 2)) /\
  (forall mem pos, BfGen_BM.bf_ref_u24n mem pos = from_host BfGen_BM.big (rd mem pos 3)) /\
  (forall mem pos, octetsZ mem -> BfGen_BM.bf_ref_u24b mem pos = ofbZ (rd mem pos 3)) /\
  (forall mem pos, octetsZ mem -> BfGen_BM.bf_ref_u24l mem pos = oflZ (rd mem pos 3)) /\
  (forall mem pos, BfGen_BM.bf_ref_u32n mem pos = from_host BfGen_BM.big (rd mem pos 4)) /\
  (forall mem pos, octetsZ mem -> BfGen_BM.bf_ref_u32b mem pos = ofbZ (rd mem pos 4)) /\
  (forall mem pos, octetsZ mem -> BfGen_BM.bf_ref_u32l mem pos = oflZ (rd mem pos 4)) /\
  (forall mem pos, BfGen_BM.bf_ref_u40n mem pos = from_host BfGen_BM.big (rd mem pos 5)) /\
  (forall mem pos, octetsZ mem -> BfGen_BM.bf_ref_u40b mem pos = ofbZ (rd mem pos 5)) /\
  (forall mem pos, octetsZ mem -> BfGen_BM.bf_ref_u40l mem pos = oflZ (rd mem pos 5)) /\
  (forall mem pos, BfGen_BM.bf_ref_u48n mem pos = from_host BfGen_BM.big (rd mem pos 6)) /\
  (forall mem pos, octetsZ mem -> BfGen_BM.bf_ref_u48b mem pos = ofbZ (rd mem pos 6)) /\
  (forall mem pos, octetsZ mem -> BfGen_BM.bf_ref_u48l mem pos = oflZ (rd mem pos 6)) /\
  (forall mem pos, BfGen_BM.bf_ref_u56n mem pos = from_host BfGen_BM.big (rd mem pos 7)) /\
  (forall mem pos, octetsZ mem -> BfGen_BM.bf_ref_u56b mem pos = ofbZ (rd mem pos 7)) /\
  (forall mem pos, octetsZ mem -> BfGen_BM.bf_ref_u56l mem pos = oflZ (rd mem pos 7)) /\
  (forall mem pos, BfGen_BM.bf_ref_u64n mem pos = from_host BfGen_BM.big (rd mem pos 8)) /\
  (forall mem pos, octetsZ mem -> BfGen_BM.bf_ref_u64b mem pos = ofbZ (rd mem pos 8)) /\
  (forall mem pos, octetsZ mem -> BfGen_BM.bf_ref_u64l mem pos = oflZ (rd mem pos 8)).
Proof. exact (conj BfProofs_BM.ref_u16n_ok (conj BfProofs_BM.ref_u16b_ok (conj BfProofs_BM.ref_u16l_ok (conj BfProofs_BM.ref_u24n_ok (conj BfProofs_BM.ref_u24b_ok (conj BfProofs_BM.ref_u24l_ok (conj BfProofs_BM.ref_u32n_ok (conj BfProofs_BM.ref_u32b_ok (conj BfProofs_BM.ref_u32l_ok (conj BfProofs_BM.ref_u40n_ok (conj BfProofs_BM.ref_u40b_ok (conj BfProofs_BM.ref_u40l_ok (conj BfProofs_BM.ref_u48n_ok (conj BfProofs_BM.ref_u48b_ok (conj BfProofs_BM.ref_u48l_ok (conj BfProofs_BM.ref_u56n_ok (conj BfProofs_BM.ref_u56b_ok (conj BfProofs_BM.ref_u56l_ok (conj BfProofs_BM.ref_u64n_ok (conj BfProofs_BM.ref_u64b_ok BfProofs_BM.ref_u64l_ok)))))))))))))))))))). Qed.
Print Assumptions C15_BM_ref_unsigned.

Theorem C15_BM_set_unsigned :
  (forall mem pos v, BfGen_BM.bf_set_u16n mem pos v = (wr mem pos (host_bytes BfGen_BM.big 2 v), (pos + 2)%nat)) /\
  (forall mem pos v, 0 <= v < 65536 -> BfGen_BM.bf_set_u16b mem pos v = (wr mem pos (bebZ 2 v), (pos + 2)%nat)) /\
  (forall mem pos v, 0 <= v < 65536 -> BfGen_BM.bf_set_u16l mem pos v = (wr mem pos (lebZ 2 v), (pos + 2)%nat)) /\
  (forall mem pos v, BfGen_BM.bf_set_u24n mem pos v = (wr mem pos (host_bytes BfGen_BM.big 3 v), (pos + 3)%nat)) /\
  (forall mem pos v, 0 <= v < 4294967296 -> BfGen_BM.bf_set_u24b mem pos v = (wr mem pos (bebZ 3 v), (pos + 3)%nat)) /\
  (forall mem pos v, 0 <= v < 4294967296 -> BfGen_BM.bf_set_u24l mem pos v = (wr mem pos (lebZ 3 v), (pos + 3)%nat)) /\
  (forall mem pos v, BfGen_BM.bf_set_u32n mem pos v = (wr mem pos (host_bytes BfGen_BM.big 4 v), (pos + 4)%nat)) /\
  (forall mem pos v, 0 <= v < 4294967296 -> BfGen_BM.bf_set_u32b mem pos v = (wr mem pos (bebZ 4 v), (pos + 4)%nat)) /\
  (forall mem pos v, 0 <= v < 4294967296 -> BfGen_BM.bf_set_u32l mem pos v = (wr mem pos (lebZ 4 v), (pos + 4)%nat)) /\
  (forall mem pos v, BfGen_BM.bf_set_u40n mem pos v = (wr mem pos (host_bytes BfGen_BM.big 5 v), (pos + 5)%nat)) /\
  (forall mem pos v, 0 <= v < 18446744073709551616 -> BfGen_BM.bf_set_u40b mem pos v = (wr mem pos (bebZ 5 v), (pos + 5)%nat)) /\
  (forall mem pos v, 0 <= v < 18446744073709551616 -> BfGen_BM.bf_set_u40l mem pos v = (wr mem pos (lebZ 5 v), (pos + 5)%nat)) /\
  (forall mem pos v, BfGen_BM.bf_set_u48n mem pos v = (wr mem pos (host_bytes BfGen_BM.big 6 v), (pos + 6)%nat)) /\
  (forall mem pos v, 0 <= v < 18446744073709551616 -> BfGen_BM.bf_set_u48b mem pos v = (wr mem pos (bebZ 6 v), (pos + 6)%nat)) /\
  (forall mem pos v, 0 <= v < 18446744073709551616 -> BfGen_BM.bf_set_u48l mem pos v = (wr mem pos (lebZ 6 v), (pos + 6)%nat)) /\
  (forall mem pos v, BfGen_BM.bf_set_u56n mem pos v = (wr mem pos (host_bytes BfGen_BM.big 7 v), (pos + 7)%nat)) /\
  (forall mem pos v, 0 <= v < 18446744073709551616 -> BfGen_BM.bf_set_u56b mem pos v = (wr mem pos (bebZ 7 v), (pos + 7)%nat)) /\
  (forall mem pos v, 0 <= v < 18446744073709551616 -> BfGen_BM.bf_set_u56l mem pos v = (wr mem pos (lebZ 7 v), (pos + 7)%nat)) /\
  (forall mem pos v, BfGen_BM.bf_set_u64n mem pos v = (wr mem pos (host_bytes BfGen_BM.big 8 v), (pos + 8)%nat)) /\
  (forall mem pos v, 0 <= v < 18446744073709551616 -> BfGen_BM.bf_set_u64b mem pos v = (wr mem pos (bebZ 8 v), (pos + 8)%nat)) /\
  (forall mem pos v, 0 <= v < 18446744073709551616 -> BfGen_BM.bf_set_u64l mem pos v = (wr mem pos (lebZ 8 v), (pos + 8)%nat)).
Proof. exact (conj BfProofs_BM.set_u16n_ok (conj BfProofs_BM.set_u16b_ok (conj BfProofs_BM.set_u16l_ok (conj BfProofs_BM.set_u24n_ok (conj BfProofs_BM.set_u24b_ok (conj BfProofs_BM.set_u24l_ok (conj BfProofs_BM.set_u32n_ok (conj BfProofs_BM.set_u32b_ok (conj BfProofs_BM.set_u32l_ok (conj BfProofs_BM.set_u40n_ok (conj BfProofs_BM.set_u40b_ok (conj BfProofs_BM.set_u40l_ok (conj BfProofs_BM.set_u48n_ok (conj BfProofs_BM.set_u48b_ok (conj BfProofs_BM.set_u48l_ok (conj BfProofs_BM.set_u56n_ok (conj BfProofs_BM.set_u56b_ok (conj BfProofs_BM.set_u56l_ok (conj BfProofs_BM.set_u64n_ok (conj BfProofs_BM.set_u64b_ok BfProofs_BM.set_u64l_ok)))))))))))))))))))). Qed.
Print Assumptions C15_BM_set_unsigned.

Theorem C15_BM_ref_signed :
  (forall mem pos, octetsZ mem -> BfGen_BM.bf_ref_s16n mem pos = sextZ 16 (BfGen_BM.bf_ref_u16n mem pos)) /\
  (forall mem pos, octetsZ mem -> BfGen_BM.bf_ref_s16b mem pos = sextZ 16 (BfGen_BM.bf_ref_u16b mem pos)) /\
  (forall mem pos, octetsZ mem -> BfGen_BM.bf_ref_s16l mem pos = sextZ 16 (BfGen_BM.bf_ref_u16l mem pos)) /\
  (forall mem pos, octetsZ mem -> BfGen_BM.bf_ref_s24n mem pos = sextZ 24 (BfGen_BM.bf_ref_u24n mem pos)) /\
  (forall mem pos, octetsZ mem -> BfGen_BM.bf_ref_s24b mem pos = sextZ 24 (BfGen_BM.bf_ref_u24b mem pos)) /\
  (forall mem pos, octetsZ mem -> BfGen_BM.bf_ref_s24l mem pos = sextZ 24 (BfGen_BM.bf_ref_u24l mem pos)) /\
  (forall mem pos, octetsZ mem -> BfGen_BM.bf_ref_s32n mem pos = sextZ 32 (BfGen_BM.bf_ref_u32n mem pos)) /\
  (forall mem pos, octetsZ mem -> BfGen_BM.bf_ref_s32b mem pos = sextZ 32 (BfGen_BM.bf_ref_u32b mem pos)) /\
  (forall mem pos, octetsZ mem -> BfGen_BM.bf_ref_s32l mem pos = sextZ 32 (BfGen_BM.bf_ref_u32l mem pos)) /\
  (forall mem pos, octetsZ mem -> BfGen_BM.bf_ref_s40n mem pos = sextZ 40 (BfGen_BM.bf_ref_u40n mem pos)) /\
  (forall mem pos, octetsZ mem -> BfGen_BM.bf_ref_s40b mem pos = sextZ 40 (BfGen_BM.bf_ref_u40b mem pos)) /\
  (forall mem pos, octetsZ mem -> BfGen_BM.bf_ref_s40l mem pos = sextZ 40 (BfGen_BM.bf_ref_u40l mem pos)) /\
  (forall mem pos, octetsZ mem -> BfGen_BM.bf_ref_s48n mem pos = sextZ 48 (BfGen_BM.bf_ref_u48n mem pos)) /\
  (forall mem pos, octetsZ mem -> BfGen_BM.bf_ref_s48b mem pos = sextZ 48 (BfGen_BM.bf_ref_u48b mem pos)) /\
  (forall mem pos, octetsZ mem -> BfGen_BM.bf_ref_s48l mem pos = sextZ 48 (BfGen_BM.bf_ref_u48l mem pos)) /\
  (forall mem pos, octetsZ mem -> BfGen_BM.bf_ref_s56n mem pos = sextZ 56 (BfGen_BM.bf_ref_u56n mem pos)) /\
  (forall mem pos, octetsZ mem -> BfGen_BM.bf_ref_s56b mem pos = sextZ 56 (BfGen_BM.bf_ref_u56b mem pos)) /\
  (forall mem pos, octetsZ mem -> BfGen_BM.bf_ref_s56l mem pos = sextZ 56 (BfGen_BM.bf_ref_u56l mem pos)) /\
  (forall mem pos, octetsZ mem -> BfGen_BM.bf_ref_s64n mem pos = sextZ 64 (BfGen_BM.bf_ref_u64n mem pos)) /\
  (forall mem pos, octetsZ mem -> BfGen_BM.bf_ref_s64b mem pos = sextZ 64 (BfGen_BM.bf_ref_u64b mem pos)) /\
  (forall mem pos, octetsZ mem -> BfGen_BM.bf_ref_s64l mem pos = sextZ 64 (BfGen_BM.bf_ref_u64l mem pos)).
Proof. exact (conj BfProofs_BM.ref_s16n_ok (conj BfProofs_BM.ref_s16b_ok (conj BfProofs_BM.ref_s16l_ok (conj BfProofs_BM.ref_s24n_ok (conj BfProofs_BM.ref_s24b_ok (conj BfProofs_BM.ref_s24l_ok (conj BfProofs_BM.ref_s32n_ok (conj BfProofs_BM.ref_s32b_ok (conj BfProofs_BM.ref_s32l_ok (conj BfProofs_BM.ref_s40n_ok (conj BfProofs_BM.ref_s40b_ok (conj BfProofs_BM.ref_s40l_ok (conj BfProofs_BM.ref_s48n_ok (conj BfProofs_BM.ref_s48b_ok (conj BfProofs_BM.ref_s48l_ok (conj BfProofs_BM.ref_s56n_ok (conj BfProofs_BM.ref_s56b_ok (conj BfProofs_BM.ref_s56l_ok (conj BfProofs_BM.ref_s64n_ok (conj BfProofs_BM.ref_s64b_ok BfProofs_BM.ref_s64l_ok)))))))))))))))))))). Qed.
Print Assumptions C15_BM_ref_signed.

Theorem C15_BM_set_signed :
  (forall mem pos v, BfGen_BM.bf_set_s16n mem pos v = BfGen_BM.bf_set_u16n mem pos (v mod 65536)) /\
  (forall mem pos v, BfGen_BM.bf_set_s16b mem pos v = BfGen_BM.bf_set_u16b mem pos (v mod 65536)) /\
  (forall mem pos v, BfGen_BM.bf_set_s16l mem pos v = BfGen_BM.bf_set_u16l mem pos (v mod 65536)) /\
  (forall mem pos v, BfGen_BM.bf_set_s24n mem pos v = BfGen_BM.bf_set_u24n mem pos (v mod 4294967296)) /\
  (forall mem pos v, BfGen_BM.bf_set_s24b mem pos v = BfGen_BM.bf_set_u24b mem pos (v mod 4294967296)) /\
  (forall mem pos v, BfGen_BM.bf_set_s24l mem pos v = BfGen_BM.bf_set_u24l mem pos (v mod 4294967296)) /\
  (forall mem pos v, BfGen_BM.bf_set_s32n mem pos v = BfGen_BM.bf_set_u32n mem pos (v mod 4294967296)) /\
  (forall mem pos v, BfGen_BM.bf_set_s32b mem pos v = BfGen_BM.bf_set_u32b mem pos (v mod 4294967296)) /\
  (forall mem pos v, BfGen_BM.bf_set_s32l mem pos v = BfGen_BM.bf_set_u32l mem pos (v mod 4294967296)) /\
  (forall mem pos v, BfGen_BM.bf_set_s40n mem pos v = BfGen_BM.bf_set_u40n mem pos (v mod 18446744073709551616)) /\
  (forall mem pos v, BfGen_BM.bf_set_s40b mem pos v = BfGen_BM.bf_set_u40b mem pos (v mod 18446744073709551616)) /\
  (forall mem pos v, BfGen_BM.bf_set_s40l mem pos v = BfGen_BM.bf_set_u40l mem pos (v mod 18446744073709551616)) /\
  (forall mem pos v, BfGen_BM.bf_set_s48n mem pos v = BfGen_BM.bf_set_u48n mem pos (v mod 18446744073709551616)) /\
  (forall mem pos v, BfGen_BM.bf_set_s48b mem pos v = BfGen_BM.bf_set_u48b mem pos (v mod 18446744073709551616)) /\
  (forall mem pos v, BfGen_BM.bf_set_s48l mem pos v = BfGen_BM.bf_set_u48l mem pos (v mod 18446744073709551616)) /\
  (forall mem pos v, BfGen_BM.bf_set_s56n mem pos v = BfGen_BM.bf_set_u56n mem pos (v mod 18446744073709551616)) /\
  (forall mem pos v, BfGen_BM.bf_set_s56b mem pos v = BfGen_BM.bf_set_u56b mem pos (v mod 18446744073709551616)) /\
  (forall mem pos v, BfGen_BM.bf_set_s56l mem pos v = BfGen_BM.bf_set_u56l mem pos (v mod 18446744073709551616)) /\
  (forall mem pos v, BfGen_BM.bf_set_s64n mem pos v = BfGen_BM.bf_set_u64n mem pos (v mod 18446744073709551616)) /\
  (forall mem pos v, BfGen_BM.bf_set_s64b mem pos v = BfGen_BM.bf_set_u64b mem pos (v mod 18446744073709551616)) /\
  (forall mem pos v, BfGen_BM.bf_set_s64l mem pos v = BfGen_BM.bf_set_u64l mem pos (v mod 18446744073709551616)).
Proof. exact (conj BfProofs_BM.set_s16n_ok (conj BfProofs_BM.set_s16b_ok (conj BfProofs_BM.set_s16l_ok (conj BfProofs_BM.set_s24n_ok (conj BfProofs_BM.set_s24b_ok (conj BfProofs_BM.set_s24l_ok (conj BfProofs_BM.set_s32n_ok (conj BfProofs_BM.set_s32b_ok (conj BfProofs_BM.set_s32l_ok (conj BfProofs_BM.set_s40n_ok (conj BfProofs_BM.set_s40b_ok (conj BfProofs_BM.set_s40l_ok (conj BfProofs_BM.set_s48n_ok (conj BfProofs_BM.set_s48b_ok (conj BfProofs_BM.set_s48l_ok (conj BfProofs_BM.set_s56n_ok (conj BfProofs_BM.set_s56b_ok (conj BfProofs_BM.set_s56l_ok (conj BfProofs_BM.set_s64n_ok (conj BfProofs_BM.set_s64b_ok BfProofs_BM.set_s64l_ok)))))))))))))))))))). Qed.
Print Assumptions C15_BM_set_signed.

(* floats are carried as their bit patterns: bit-identical, NaN payloads included *)
Theorem C15_BM_float :
  (forall mem pos, BfGen_BM.bf_ref_f32n mem pos = BfGen_BM.bf_ref_u32n mem pos) /\
  (forall mem pos v, BfGen_BM.bf_set_f32n mem pos v = BfGen_BM.bf_set_u32n mem pos v) /\
  (forall mem pos, BfGen_BM.bf_ref_f32b mem pos = BfGen_BM.bf_ref_u32b mem pos) /\
  (forall mem pos v, BfGen_BM.bf_set_f32b mem pos v = BfGen_BM.bf_set_u32b mem pos v) /\
  (forall mem pos, BfGen_BM.bf_ref_f32l mem pos = BfGen_BM.bf_ref_u32l mem pos) /\
  (forall mem pos v, BfGen_BM.bf_set_f32l mem pos v = BfGen_BM.bf_set_u32l mem pos v) /\
  (forall mem pos, BfGen_BM.bf_ref_f64n mem pos = BfGen_BM.bf_ref_u64n mem pos) /\
  (forall mem pos v, BfGen_BM.bf_set_f64n mem pos v = BfGen_BM.bf_set_u64n mem pos v) /\
  (forall mem pos, BfGen_BM.bf_ref_f64b mem pos = BfGen_BM.bf_ref_u64b mem pos) /\
  (forall mem pos v, BfGen_BM.bf_set_f64b mem pos v = BfGen_BM.bf_set_u64b mem pos v) /\
  (forall mem pos, BfGen_BM.bf_ref_f64l mem pos = BfGen_BM.bf_ref_u64l mem pos) /\
  (forall mem pos v, BfGen_BM.bf_set_f64l mem pos v = BfGen_BM.bf_set_u64l mem pos v).
Proof. exact (conj BfProofs_BM.ref_f32n_ok (conj BfProofs_BM.set_f32n_ok (conj BfProofs_BM.ref_f32b_ok (conj BfProofs_BM.set_f32b_ok (conj BfProofs_BM.ref_f32l_ok (conj BfProofs_BM.set_f32l_ok (conj BfProofs_BM.ref_f64n_ok (conj BfProofs_BM.set_f64n_ok (conj BfProofs_BM.ref_f64b_ok (conj BfProofs_BM.set_f64b_ok (conj BfProofs_BM.ref_f64l_ok BfProofs_BM.set_f64l_ok))))))))))). Qed.
Print Assumptions C15_BM_float.

Theorem C15_BM_inrange :
  (forall v, 0 <= v < 4294967296 -> BfGen_BM.bf_inrange_u24 v = if v <? 16777216 then 1 else 0) /\
  (forall v, -2147483648 <= v < 2147483648 -> BfGen_BM.bf_inrange_s24 v = if (-8388608 <=? v) && (v <? 8388608) then 1 else 0) /\
  (forall v, 0 <= v < 18446744073709551616 -> BfGen_BM.bf_inrange_u40 v = if v <? 1099511627776 then 1 else 0) /\
  (forall v, -9223372036854775808 <= v < 9223372036854775808 -> BfGen_BM.bf_inrange_s40 v = if (-549755813888 <=? v) && (v <? 549755813888) then 1 else 0) /\
  (forall v, 0 <= v < 18446744073709551616 -> BfGen_BM.bf_inrange_u48 v = if v <? 281474976710656 then 1 else 0) /\
  (forall v, -9223372036854775808 <= v < 9223372036854775808 -> BfGen_BM.bf_inrange_s48 v = if (-140737488355328 <=? v) && (v <? 140737488355328) then 1 else 0) /\
  (forall v, 0 <= v < 18446744073709551616 -> BfGen_BM.bf_inrange_u56 v = if v <? 72057594037927936 then 1 else 0) /\
  (forall v, -9223372036854775808 <= v < 9223372036854775808 -> BfGen_BM.bf_inrange_s56 v = if (-36028797018963968 <=? v) && (v <? 36028797018963968) then 1 else 0).
Proof. exact (conj BfProofs_BM.inrange_u24_ok (conj BfProofs_BM.inrange_s24_ok (conj BfProofs_BM.inrange_u40_ok (conj BfProofs_BM.inrange_s40_ok (conj BfProofs_BM.inrange_u48_ok (conj BfProofs_BM.inrange_s48_ok (conj BfProofs_BM.inrange_u56_ok BfProofs_BM.inrange_s56_ok))))))). Qed.
Print Assumptions C15_BM_inrange.

(* non-vacuity *)
Example C15_example :
  BfGen_LM.bf_set_u24b [9; 9; 9; 9; 9] 1 0x123456 = ([9; 0x12; 0x34; 0x56; 9], 4%nat) /\
  BfGen_BM.bf_ref_s24l [0xfe; 0xff; 0xff] 0 = -2 /\ BfGen_LB.bf_swap64 0x0102030405060708 = 0x0807060504030201.
Proof. repeat split; vm_compute; reflexivity. Qed.
