(* C11  Interrupted or failing stores never validate a mixed image silently.
   Statements only; proofs in Proof/PersistLemmas.v.  A crash is a write fault script: the first k writes
   are performed, the next one transfers only its first j octets (Fshort j; j = 0: whole-write granularity). *)
From Ufw Require Import Base.Bits Model.Persist Proof.PersistLemmas Proof.PersistRegion Proof.PersistTorn.
Local Open Scope N_scope.

(* whenever a validation succeeds, the checksum on the medium is the algorithm applied to the data on the medium *)
Theorem C11_validate_consistent : forall step st m, wf st m -> fst (validate step st m) = PSuccess ->
  of_le (at_ m (p_caddr st) (p_csize st)) = cks step (p_init st) (at_ m (p_daddr st) (p_dsize st)).
Proof. exact validate_success_consistent. Qed.
Print Assumptions C11_validate_consistent.

(* whole-write granularity, cut before the data write: the medium is unchanged (fetch = the previous image) *)
Theorem C11_crash_before_data : forall step st m src offset n r,
  wfr st m -> m_wr m = Fshort 0 :: r -> offset + n <= p_dsize st -> 1 <= n ->
  exists m', store_part step st m src offset n = (PIoError, m') /\ m_img m' = m_img m.
Proof. exact crash_before_data. Qed.
Print Assumptions C11_crash_before_data.

(* cut between data write and checksum write: the data is exactly the new image, the checksum still the old one *)
Theorem C11_crash_after_data : forall step st m src offset n r,
  wfr st m -> m_wr m = Fok :: Fshort 0 :: r -> offset + n <= p_dsize st -> n <= N.of_nat (length src) ->
  let new := overlay (at_ m (p_daddr st) (p_dsize st)) offset (firstn (N.to_nat n) src) in
  exists m', store_part step st m src offset n = (PIoError, m') /\
    at_ m' (p_daddr st) (p_dsize st) = new /\
    at_ m' (p_caddr st) (p_csize st) = at_ m (p_caddr st) (p_csize st).
Proof. exact crash_after_data. Qed.
Print Assumptions C11_crash_after_data.

(* a medium call that fails or transfers short is never reported as success - for ANY medium and fault scripts:
   an operation that does not return IO_ERROR has only full transfers in its access log *)
Theorem C11_store_io_error : forall step st m src offset n m', n <= N.of_nat (length src) ->
  store_part step st m src offset n = (PSuccess, m') ->
  exists l, m_log m' = m_log m ++ l /\ all_full l.
Proof. exact store_no_silent_fault. Qed.
Print Assumptions C11_store_io_error.
Theorem C11_validate_io_error : forall step st m m',
  fst (validate step st m) <> PIoError -> snd (validate step st m) = m' ->
  exists l, m_log m' = m_log m ++ l /\ all_full l.
Proof. exact validate_no_silent_fault. Qed.
Print Assumptions C11_validate_io_error.
Theorem C11_fetch_io_error : forall st m offset n d m', fetch_part st m offset n = (PSuccess, d, m') ->
  exists l, m_log m' = m_log m ++ l /\ all_full l.
Proof. exact fetch_no_silent_fault. Qed.
Print Assumptions C11_fetch_io_error.

(* octet-granular cut points.  A store issues exactly two write calls (data, checksum); the cuts are: before the data write
   (C11_crash_before_data), INSIDE the data write after k octets, between the writes (C11_crash_after_data), INSIDE the checksum write,
   none.  In each case IO_ERROR is reported and the medium holds exactly "old overlaid with what was written"; what a later validation
   says about that image is C11_validate_consistent. *)
Theorem C11_crash_torn_data : forall step st m src offset n k r,
  wfr st m -> m_wr m = Fshort k :: r -> offset + n <= p_dsize st -> n <= N.of_nat (length src) -> k < n ->
  exists m', store_part step st m src offset n = (PIoError, m') /\
    at_ m' (p_daddr st) (p_dsize st) = overlay (at_ m (p_daddr st) (p_dsize st)) offset (firstn (N.to_nat k) src) /\
    at_ m' (p_caddr st) (p_csize st) = at_ m (p_caddr st) (p_csize st).
Proof. exact crash_torn_data. Qed.
Print Assumptions C11_crash_torn_data.
Theorem C11_crash_torn_checksum : forall step st m src offset n k r,
  wfr st m -> sum_range step st -> m_wr m = Fok :: Fshort k :: r -> offset + n <= p_dsize st -> n <= N.of_nat (length src) -> k < p_csize st ->
  let new := overlay (at_ m (p_daddr st) (p_dsize st)) offset (firstn (N.to_nat n) src) in
  exists m', store_part step st m src offset n = (PIoError, m') /\
    at_ m' (p_daddr st) (p_dsize st) = new /\
    at_ m' (p_caddr st) (p_csize st) =
      blit (at_ m (p_caddr st) (p_csize st)) 0 (firstn (N.to_nat k) (le_bytes (N.to_nat (p_csize st)) (cks step (p_init st) new))).
Proof. exact crash_torn_checksum. Qed.
Print Assumptions C11_crash_torn_checksum.
(* reset never reports a short or failed write as success either *)
Theorem C11_reset_io_error : forall st m item m', reset st m item = (PSuccess, m') -> exists l, m_log m' = m_log m ++ l /\ all_full l.
Proof. exact reset_no_silent_fault. Qed.
Print Assumptions C11_reset_io_error.

Example C11_example :
  let st := {| p_caddr := 4; p_csize := 2; p_dsize := 3; p_init := 0; p_bsize := 1 |} in
  let m := {| m_base := 0; m_img := [170;170;170;170; 6;0; 1;2;3; 170]; m_log := []; m_rd := []; m_wr := [Fok; Fshort 1] |} in
  store step_trivial st m [9; 9; 9] = (PIoError, snd (store step_trivial st m [9; 9; 9])) /\
  m_img (snd (store step_trivial st m [9; 9; 9])) = [170;170;170;170; 27;0; 9;9;9; 170] /\
  fst (validate step_trivial st {| m_base := 0; m_img := [170;170;170;170; 27;0; 9;9;9; 170]; m_log := []; m_rd := []; m_wr := [] |}) = PSuccess.
Proof. cbv zeta. repeat split; vm_compute; reflexivity. Qed.
