(* C19  Ring buffer is a bounded FIFO (optionally overwriting) with faithful iterators.
   Statements only; proofs in Proof/RingLemmas.v; model Model/Ring.v. *)
From Ufw Require Import Base.Bits Model.Ring Proof.RingLemmas.
From Coq Require Import Arith.
Local Open Scope nat_scope.

Theorem C19_init : forall ds, 1 <= ds -> ring_inv (ring_init ds).
Proof. exact init_inv. Qed.
Print Assumptions C19_init.

(* one step: the ring's output equals the bounded queue's and the abstraction commutes *)
Theorem C19_step_refines : forall r o, ring_inv r ->
  let '(r', v) := ring_step r o in
  let '(q', w) := queue_step (ring_abs r) o in
  ring_inv r' /\ v = w /\ ring_abs r' = q'.
Proof. exact step_refines. Qed.
Print Assumptions C19_step_refines.

(* every operation sequence, every capacity >= 1 *)
Theorem C19_refine : forall ops r, ring_inv r ->
  ring_inv (fst (ring_run r ops)) /\ snd (ring_run r ops) = snd (queue_run (ring_abs r) ops) /\
  ring_abs (fst (ring_run r ops)) = fst (queue_run (ring_abs r) ops).
Proof. exact run_refines. Qed.
Print Assumptions C19_refine.

Theorem C19_from_init : forall ds ops, 1 <= ds ->
  let r := fst (ring_run (ring_init ds) ops) in
  let q0 := {| q_items := []; q_cap := ds; q_ovr := false |} in
  ring_inv r /\ snd (ring_run (ring_init ds) ops) = snd (queue_run q0 ops) /\ ring_abs r = fst (queue_run q0 ops).
Proof. exact from_init. Qed.
Print Assumptions C19_from_init.

(* size / empty / full report the queue's state; never more than capacity elements *)
Theorem C19_observers : forall r, ring_inv r ->
  ring_size r = length (ring_abs_items r) /\
  (ring_empty r = true <-> ring_abs_items r = []) /\
  (ring_full r = true <-> length (ring_abs_items r) = r_ds r) /\
  length (ring_abs_items r) <= r_ds r.
Proof. exact observers. Qed.
Print Assumptions C19_observers.

(* iterators: exactly the queued elements in insertion order / reversed, in exactly size steps *)
Theorem C19_iter_old_to_new : forall r, ring_inv r -> ring_iter r false = ring_abs_items r.
Proof. exact iter_old_to_new. Qed.
Print Assumptions C19_iter_old_to_new.
Theorem C19_iter_new_to_old : forall r, ring_inv r -> ring_iter r true = rev (ring_abs_items r).
Proof. exact iter_new_to_old. Qed.
Print Assumptions C19_iter_new_to_old.
Theorem C19_iter_steps : forall r b, length (ring_iter r b) = ring_size r.
Proof. exact iter_steps. Qed.
Print Assumptions C19_iter_steps.

Example C19_example :
  let r := fst (ring_run (ring_init 3) [RPut 1%N; RPut 2%N; RPut 3%N; RPut 4%N; ROverride true; RPut 5%N; RGet]) in
  ring_abs_items r = [3%N; 5%N] /\ ring_iter r true = [5%N; 3%N] /\
  snd (ring_run (ring_init 3) [RPut 1%N; RPut 2%N; RGet; RGet; RGet]) = [0%N; 0%N; 1%N; 2%N; 0%N].
Proof. repeat split; vm_compute; reflexivity. Qed.
