(* C10  Persistent store/validate/fetch round-trips and stays inside its region.
   Statements only; proofs in Proof/PersistLemmas.v; model Model/Persist.v.  [step] is the configured
   checksum algorithm (one step per octet); [wf st m]: fault-free medium whose window covers the
   instance's region, chunk size >= 1, region below 2^32; [at_ m a n]: the n octets of the medium at a. *)
From Ufw Require Import Base.Bits Model.Persist Proof.PersistLemmas Proof.PersistRegion.
Local Open Scope N_scope.

(* the checksum computed from the medium is the fold of the algorithm over the data image, for EVERY
   chunk size >= 1 (auxiliary buffer of any size, or none) *)
Theorem C10_chunk_independent : forall step fuel st m rest addr sum,
  m_rd m = [] -> inwin m addr rest -> 1 <= p_bsize st -> (N.to_nat rest < fuel)%nat ->
  exists m', calc_loop step fuel st m rest addr sum = (Some (cks step sum (at_ m addr rest)), m') /\
             m_img m' = m_img m /\ m_base m' = m_base m /\ m_rd m' = [] /\ m_wr m' = m_wr m /\
             (exists l, m_log m' = m_log m ++ l /\
                        Forall (fun e => let '(w, a, n, g) := e in w = false /\ addr <= a /\ a + n <= addr + rest /\ g = n) l).
Proof. exact calc_loop_ok. Qed.
Print Assumptions C10_chunk_independent.

(* a successful full or partial store: the data image is old overlaid with the part, the checksum octets are
   the algorithm's value in host (little-endian) order, nothing outside the region changes *)
Theorem C10_store : forall step st m src offset n,
  wf st m -> sum_range step st -> offset + n <= p_dsize st -> n <= N.of_nat (length src) ->
  let new := overlay (at_ m (p_daddr st) (p_dsize st)) offset (firstn (N.to_nat n) src) in
  exists m', store_part step st m src offset n = (PSuccess, m') /\ wf st m' /\
    at_ m' (p_daddr st) (p_dsize st) = new /\
    at_ m' (p_caddr st) (p_csize st) = le_bytes (N.to_nat (p_csize st)) (cks step (p_init st) new) /\
    firstn (N.to_nat (p_caddr st - m_base m)) (m_img m') = firstn (N.to_nat (p_caddr st - m_base m)) (m_img m) /\
    skipn (N.to_nat (p_caddr st + p_csize st + p_dsize st - m_base m)) (m_img m')
      = skipn (N.to_nat (p_caddr st + p_csize st + p_dsize st - m_base m)) (m_img m) /\
    m_base m' = m_base m /\ length (m_img m') = length (m_img m).
Proof. exact store_part_spec. Qed.
Print Assumptions C10_store.

(* round trip *)
Theorem C10_roundtrip : forall step st m src offset n,
  wf st m -> sum_range step st -> offset + n <= p_dsize st -> n <= N.of_nat (length src) ->
  let new := overlay (at_ m (p_daddr st) (p_dsize st)) offset (firstn (N.to_nat n) src) in
  exists m', store_part step st m src offset n = (PSuccess, m') /\
    fst (validate step st m') = PSuccess /\ fst (fetch st m') = (PSuccess, new).
Proof. exact store_validate_fetch. Qed.
Print Assumptions C10_roundtrip.

(* validation reads inside the region only and compares the stored checksum with the algorithm applied to the data *)
Theorem C10_validate : forall step st m, wf st m ->
  exists m', validate step st m =
    ((if of_le (at_ m (p_caddr st) (p_csize st)) =? cks step (p_init st) (at_ m (p_daddr st) (p_dsize st))
      then PSuccess else PInvalidData), m') /\ m_img m' = m_img m /\ m_base m' = m_base m /\ nofault m' /\
    (exists l, m_log m' = m_log m ++ l /\ Forall (fun e => in_region st e = true /\ full_transfer e = true) l).
Proof. exact validate_spec. Qed.
Print Assumptions C10_validate.

(* part accesses reaching beyond the data size - as mathematical integers, i.e. including pairs whose
   size_t sum wraps - are refused without touching the medium *)
Theorem C10_store_part_refused : forall step st m src offset n, p_dsize st < offset + n ->
  store_part step st m src offset n = (PAddrRange, m).
Proof. exact store_part_refused. Qed.
Print Assumptions C10_store_part_refused.
Theorem C10_fetch_part_refused : forall st m offset n, p_dsize st < offset + n ->
  fetch_part st m offset n = (PAddrRange, [], m).
Proof. exact (fetch_part_refused (fun s _ => s)). Qed.
Print Assumptions C10_fetch_part_refused.
Theorem C10_fetch_part : forall st m offset n, wf st m -> offset + n <= p_dsize st ->
  exists m', fetch_part st m offset n = (PSuccess, at_ m (p_daddr st + offset) n, m') /\ m_img m' = m_img m.
Proof. exact (fetch_part_spec (fun s _ => s)). Qed.
Print Assumptions C10_fetch_part.

(* alteration is reported whenever the configured checksum distinguishes the images *)
Theorem C10_alteration : forall step st m, wf st m ->
  of_le (at_ m (p_caddr st) (p_csize st)) <> cks step (p_init st) (at_ m (p_daddr st) (p_dsize st)) ->
  fst (validate step st m) = PInvalidData.
Proof. exact alteration_detected. Qed.
Print Assumptions C10_alteration.

Example C10_example :
  let st := {| p_caddr := 4; p_csize := 2; p_dsize := 3; p_init := 0; p_bsize := 2 |} in
  let m := {| m_base := 0; m_img := repeat 170 12; m_log := []; m_rd := []; m_wr := [] |} in
  wf st m /\ fst (validate step_trivial st (snd (store step_trivial st m [1; 2; 3]))) = PSuccess /\
  m_img (snd (store step_trivial st m [1; 2; 3])) = [170;170;170;170; 6;0; 1;2;3; 170;170;170].
Proof.
  cbv zeta. split; [|split; vm_compute; reflexivity].
  unfold wf, nofault. repeat split; try (left; reflexivity); vm_compute; try reflexivity; discriminate.
Qed.

(* reset: on a fault-free medium the whole region - checksum and data - is filled with the item, nothing else is touched,
   and every access is a complete write inside the region *)
Theorem C10_reset : forall st m item, nofault m -> (p_csize st = 2 \/ p_csize st = 4) -> 1 <= p_bsize st ->
  m_base m <= p_caddr st -> p_caddr st + p_csize st + p_dsize st <= m_base m + N.of_nat (length (m_img m)) ->
  p_caddr st + p_csize st + p_dsize st < 2 ^ 32 ->
  exists m', reset st m item = (PSuccess, m') /\
             m_img m' = blit (m_img m) (N.to_nat (p_caddr st - m_base m)) (repeat item (N.to_nat (p_csize st + p_dsize st))) /\
             m_base m' = m_base m /\ nofault m' /\
             (forall e, In e (m_log m') -> In e (m_log m) \/
                        (let '(w, a, n, g) := e in w = true /\ p_caddr st <= a /\ a + n <= p_caddr st + p_csize st + p_dsize st /\ g = n)).
Proof. exact reset_spec. Qed.
Print Assumptions C10_reset.

(* ---- every medium access stays inside the checksum-plus-data region: ANY medium (image, read / write fault scripts, chunk size),
   ANY arguments, whether the call succeeds or fails; a part access beyond the data size makes no access at all ---- *)
Theorem C10_region_store : forall step st m src offset n r m', placed st -> (p_csize st = 2 \/ p_csize st = 4) ->
  store_part step st m src offset n = (r, m') -> exists l, m_log m' = m_log m ++ l /\ inreg st l.
Proof. exact store_part_region. Qed.
Print Assumptions C10_region_store.
Theorem C10_region_validate : forall step st m r m', placed st ->
  validate step st m = (r, m') -> exists l, m_log m' = m_log m ++ l /\ inreg st l.
Proof. exact validate_region. Qed.
Print Assumptions C10_region_validate.
Theorem C10_region_fetch : forall st m offset n r d m', placed st ->
  fetch_part st m offset n = (r, d, m') -> exists l, m_log m' = m_log m ++ l /\ inreg st l.
Proof. exact fetch_part_region. Qed.
Print Assumptions C10_region_fetch.
Theorem C10_region_reset : forall st m item r m', placed st ->
  reset st m item = (r, m') -> exists l, m_log m' = m_log m ++ l /\ inreg st l.
Proof. exact reset_region. Qed.
Print Assumptions C10_region_reset.

