From Ufw Require Import Model.Persist.
