(* C16  The checksum is CRC-16/ARC for every input.
   Statements only; proofs live in Proof/CrcLemmas.v.  [crc16_octet] and the
   table are *generated* from src/crc-16-arc.c (Gen/CrcGen.v) on every run. *)
From Ufw Require Import Base.Bits Model.Crc Proof.CrcLemmas.
Local Open Scope N_scope.

(* every entry of the translated table is the 8-fold LFSR step of its index *)
Theorem C16_table : forall i, i < 256 -> nth (N.to_nat i) tableN 0 = step8 i.
Proof. exact table_spec. Qed.
Print Assumptions C16_table.

(* the translated octet step is the catalogue step, for all 2^24 (state, octet) pairs *)
Theorem C16_octet : forall crc d, crc < 2 ^ 16 -> d < 2 ^ 8 -> crc16_octet crc d = spec_octet crc d.
Proof. exact octet_spec. Qed.
Print Assumptions C16_octet.

(* ufw_crc16_arc = CRC-16/ARC for every octet sequence and every start value *)
Theorem C16_bytes : forall l c, c < 2 ^ 16 -> Forall (fun b => b < 2 ^ 8) l ->
  crc_bytes c l = spec_crc c l.
Proof. exact bytes_spec. Qed.
Print Assumptions C16_bytes.

(* checksumming a concatenation = continuing over the second part *)
Theorem C16_concat : forall c a b, crc_bytes c (a ++ b) = crc_bytes (crc_bytes c a) b.
Proof. exact bytes_app. Qed.
Print Assumptions C16_concat.
Theorem C16_concat_spec : forall c a b, spec_crc c (a ++ b) = spec_crc (spec_crc c a) b.
Proof. exact spec_app. Qed.
Print Assumptions C16_concat_spec.

(* the 16-bit-word variant = the octet variant over the words' in-memory image *)
Theorem C16_u16 : forall ws c, Forall (fun w => w < 2 ^ 16) ws ->
  crc_u16 c ws = crc_bytes c (List.concat (map host_bytes16 ws)).
Proof. exact u16_bytes. Qed.
Print Assumptions C16_u16.

(* non-vacuity: the catalogue check value of CRC-16/ARC *)
Example C16_check_value : crc_bytes 0 [49;50;51;52;53;54;55;56;57] = 47933 /\ spec_crc 0 [49;50;51;52;53;54;55;56;57] = 47933.
Proof. split; vm_compute; reflexivity. Qed.
