From Coq Require Extraction ExtrOcamlBasic ExtrOcamlString.
From Ufw Require Import Base.Val Corr.Dispatch.
Extraction Language OCaml.
Extraction "model.ml" dispatch N.mul N.add N.div_eucl.
