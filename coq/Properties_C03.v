(* C03  Block reads and range iteration follow the flat address-space model.  Statements only. *)
From Ufw Require Import Base.Bits Model.RegTable Proof.RegLemmas Proof.RegInitLemmas Proof.RegMemory.
Local Open Scope N_scope.

Theorem C03_zero_length : forall t addr, t_init t = true -> block_read t addr 0 = ((ASuccess, 0), []).
Proof. exact block_read_zero. Qed.
Print Assumptions C03_zero_length.

(* NOENTRY exactly when an address of the request is unmapped, reported with the first such address, nothing returned *)
Theorem C03_read_iff : forall t addr n, t_init t = true -> n <> 0 ->
  (fst (fst (block_read t addr n)) = ANoEntry <-> first_hole (area_fuel t) t addr n <> None) /\
  (forall x, first_hole (area_fuel t) t addr n = Some x -> block_read t addr n = ((ANoEntry, x), [])).
Proof. exact block_read_iff. Qed.
Print Assumptions C03_read_iff.
Theorem C03_all_mapped : forall fuel t addr n, first_hole fuel t addr n = None ->
  forall x, addr <= x < addr + n -> exists i a, find_area (t_areas t) x 0 = Some (i, a).
Proof. exact first_hole_none. Qed.
Print Assumptions C03_all_mapped.

(* inside one area: the stored words in order, zeros for an area that is not readable *)
Theorem C03_read_value : forall t addr n i a, t_init t = true -> n <> 0 ->
  find_area (t_areas t) addr 0 = Some (i, a) -> addr + n <= a_base a + a_size a ->
  block_read t addr n = ((ASuccess, 0), if area_is_readable a then area_read a (addr - a_base a) n else repeat 0 (N.to_nat n)).
Proof. exact block_read_one_area. Qed.
Print Assumptions C03_read_value.

(* iteration: exactly the registers overlapping the range, in ascending order *)
Theorem C03_foreach : forall t addr off, t_init t = true -> off <> 0 -> sorted_entries (t_entries t) ->
  foreach_in t addr off [] =
  ((ASuccess, 0), map (fun p => N.of_nat (fst p))
     (filter (fun p => overlaps (snd p) addr off) (combine (seq 0 (length (t_entries t))) (t_entries t)))).
Proof. exact foreach_overlapping. Qed.
Print Assumptions C03_foreach.
(* the first non-zero callback result stops it; negative = failure at that register's address *)
Theorem C03_foreach_stops : forall es i addr off z zs e r, es = e :: r -> overlaps e addr off = true -> z <> 0%Z ->
  foreach_loop es i addr off (z :: zs) =
  if (z <? 0)%Z then ((AFailure, e_addr e), [i]) else ((ASuccess, 0), [i]).
Proof. exact foreach_stops. Qed.
Print Assumptions C03_foreach_stops.

(* the flat address-space model, word by word and across area borders (tables whose areas are ordered, disjoint and full):
   a successful block read delivers, for every address of the request, the word of the area that maps it - zero for an area that
   is not readable *)
Theorem C03_read_words : forall t addr n ws, areas_wf (t_areas t) -> n <> 0 ->
  block_read t addr n = ((ASuccess, 0), ws) ->
  N.of_nat (length ws) = n /\ forall i, i < n -> word_seen t (addr + i) = nth_error ws (N.to_nat i).
Proof. exact block_read_words. Qed.
Print Assumptions C03_read_words.

(* and it reads back what a block write stored *)
Theorem C03_write_then_read : forall t addr n buf t' ws, areas_wf (t_areas t) -> n <> 0 -> n <= N.of_nat (length buf) ->
  block_write t addr n buf = ((ASuccess, 0), t') ->
  block_read t' addr n = ((ASuccess, 0), ws) ->
  (forall x, addr <= x < addr + n -> forall j a, find_area (t_areas t) x 0 = Some (j, a) -> area_is_readable a = true) ->
  ws = firstn (N.to_nat n) buf.
Proof. exact block_write_then_read. Qed.
Print Assumptions C03_write_then_read.

(* ---- translator tie (Gen/RegLeafGen.v is regenerated from src/registers/core.c on every check): the address predicates that
   the C code evaluates in 32-bit arithmetic are the model's predicates, for every area, register and request inside the 32-bit
   address space - including those that reach its last address ---- *)
From Coq Require Import ZArith.
From Ufw Require Import Base.Cexpr Gen.RegLeafGen Proof.RegLeafT.

Theorem C03_T_address_in_area : forall a e addr n, area_in_space a -> addr < SPACE ->
  eval (envC a e addr n) tabsC c_ra_addr_is_part_of = b2z (addr_in_area a addr).
Proof. exact C_ra_addr_is_part_of. Qed.
Print Assumptions C03_T_address_in_area.

Theorem C03_T_register_overlaps_window : forall a e addr n, entry_in_space e -> window_in_space addr n ->
  (eval (envC a e addr n) tabsC c_reg_range_touches =? 0)%Z = overlaps e addr n.
Proof. exact C_reg_range_touches_zero. Qed.
Print Assumptions C03_T_register_overlaps_window.

Theorem C03_T_register_relative_to_window : forall a e addr n, entry_in_space e -> window_in_space addr n ->
  eval (envC a e addr n) tabsC c_reg_range_touches =
    if e_addr e + tsize (e_type e) <=? addr then (-1)%Z else if addr + n <=? e_addr e then 1%Z else 0%Z.
Proof. exact C_reg_range_touches. Qed.
Print Assumptions C03_T_register_relative_to_window.
