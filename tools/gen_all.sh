#!/bin/sh
# run every translator (used by setup; each check re-runs the ones it depends on)
cd "$(dirname "$0")/.."
python3 tools/crc2coq.py coq/Gen/CrcGen.v
[ -f tools/consts2coq.py ] && python3 tools/consts2coq.py coq/Gen/Consts.v
python3 tools/bf2coq.py coq/Gen; python3 tools/bfproofs.py coq/Gen
exit 0
