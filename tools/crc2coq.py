#!/usr/bin/env python3
"""Translate crc16_table[], the octet step function (found as the local function ufw_crc16_arc applies per octet,
whatever its name; initialised locals are substituted) and the octet order of ufw_crc16_arc_u16 of src/crc-16-arc.c
into coq/Gen/CrcGen.v."""
import sys, os

def write_if_changed(path, text):
    """keep the mtime when nothing changed, so that make does not rebuild the cone"""
    try:
        if open(path).read() == text:
            return
    except OSError:
        pass
    with open(path, 'w') as f:
        f.write(text)
sys.path.insert(0, os.path.dirname(os.path.abspath(__file__)))
from cast import *

def all_functions(src):
    """name -> FunctionDecl with a body, for every function defined in the file"""
    fns = {}
    def walk(n):
        if n.get('kind') == 'FunctionDecl' and any(c.get('kind') == 'CompoundStmt' for c in n.get('inner', [])):
            fns[n['name']] = n
        for c in n.get('inner', []):
            if isinstance(c, dict):
                walk(c)
    for o in clang_ast(src, 'crc16'):
        walk(o)
    return fns

def calls_in(n, out, inside_call=False):
    """CallExpr nodes in source order that are not arguments of another collected call"""
    if n.get('kind') == 'CallExpr' and not inside_call:
        out.append(n)
        inside_call = True
    for c in n.get('inner', []):
        if isinstance(c, dict):
            calls_in(c, out, inside_call)

def main(out):
    src = REPO + '/src/crc-16-arc.c'
    fns = all_functions(src)
    if 'ufw_crc16_arc' not in fns or 'ufw_crc16_arc_u16' not in fns:
        raise Untranslatable('ufw_crc16_arc / ufw_crc16_arc_u16 not found')
    # the octet step: the file-local function the octet loop of ufw_crc16_arc calls (whatever its name)
    cs = []
    calls_in(fns['ufw_crc16_arc'], cs)
    steps = [callee_name(c) for c in cs if callee_name(c) in fns]
    if len(set(steps)) != 1:
        raise Untranslatable('ufw_crc16_arc: expected calls to exactly one local step function, found %r' % steps)
    step = steps[0]
    fn = fns[step]
    tab = None
    for o in clang_ast(src, 'crc16_table'):
        v = find(o, 'VarDecl', 'crc16_table')
        if v is not None and find(v, 'InitListExpr') is not None:
            tab = v
    if tab is None:
        raise Untranslatable('crc16_table not found')
    vals = table_values(tab)
    ps0 = params(fn)
    if len(ps0) != 2:
        raise Untranslatable('unexpected parameters %r' % ps0)
    # canonical parameter names (the model binds "crc" and "data")
    ps = [('crc', ps0[0][1]), ('data', ps0[1][1])]
    ret, env = body_expr(fn, {ps0[0][0]: '(Var "crc")', ps0[1][0]: '(Var "data")'})
    body = expr(ret, (), env)
    # which octet of a uint16_t ufw_crc16_arc_u16 feeds first: the two applications of the step function, in order
    def is_step(n):
        n = strip_casts(n)
        return n.get('kind') == 'CallExpr' and callee_name(n) == step
    def chain(call):
        """data arguments of nested applications step(step(s, A), B) in application order"""
        call = strip_casts(call)
        a0, a1 = call['inner'][1], call['inner'][2]
        return (chain(a0) if is_step(a0) else []) + [a1]
    def word_leaf(word_param):
        def leaf(n):
            k = n['kind']
            if k == 'UnaryOperator' and n.get('opcode') == '*':
                return '(Var "w")'
            if k == 'ArraySubscriptExpr':
                return '(Var "w")'
            if k == 'DeclRefExpr' and word_param is not None and n['referencedDecl']['name'] == word_param:
                return '(Var "w")'
            return None
        return leaf
    def local_env(f, leaf):
        """initialised integer locals declared anywhere in f, substituted (declarations that are not integer expressions are skipped)"""
        env = {}
        def walk(n):
            if n.get('kind') == 'VarDecl' and n.get('inner'):
                try:
                    env[n['name']] = '(Cast %s %s)' % (coq_ty(ctype(n)), expr(n['inner'][-1], (), env, leaf))
                except Untranslatable:
                    pass
            for c in n.get('inner', []):
                if isinstance(c, dict):
                    walk(c)
        walk(f)
        return env
    u16 = fns['ufw_crc16_arc_u16']
    calls = []
    calls_in(u16, calls)
    direct = [c for c in calls if callee_name(c) == step]
    helper = [c for c in calls if callee_name(c) in fns and callee_name(c) != step]
    if direct and not helper:
        leaf = word_leaf(None)
        env16 = local_env(u16, leaf)
        args = sum((chain(c) for c in direct), [])
    elif len(helper) == 1 and not direct:
        h = fns[callee_name(helper[0])]
        hp = params(h)
        if len(hp) != 2:
            raise Untranslatable('word helper: unexpected parameters %r' % hp)
        leaf = word_leaf(hp[1][0])
        hret, env16 = body_expr(h, {}, leaf)
        if not is_step(hret):
            raise Untranslatable('word helper does not return an application of the step function')
        args = chain(hret)
    else:
        raise Untranslatable('ufw_crc16_arc_u16: cannot find the two applications of the step function')
    if len(args) != 2:
        raise Untranslatable('ufw_crc16_arc_u16: expected two applications of the step function, found %d' % len(args))
    a1 = expr(args[0], (), env16, leaf); a2 = expr(args[1], (), env16, leaf)
    import io
    f = io.StringIO()
    if True:
        f.write('(* GENERATED by tools/crc2coq.py from %s -- do not edit *)\n' % src)
        f.write('From Ufw Require Import Base.Cexpr.\nLocal Open Scope Z_scope.\nLocal Open Scope string_scope.\n\n')
        f.write('Definition crc16_table_gen : list Z :=\n  [' + ';\n   '.join(
            '; '.join(str(v) for v in vals[i:i+12]) for i in range(0, len(vals), 12)) + '].\n\n')
        f.write('Definition crc16_octet_ret : ity := %s.\n' % coq_ty(ctype({'type': {'qualType': fn['type']['qualType'].split(' ')[0]}})))
        f.write('Definition crc16_octet_params : list (string * ity) := [%s].\n' %
                '; '.join('("%s", %s)' % (n, coq_ty(t)) for n, t in ps))
        f.write('Definition crc16_octet_body : expr :=\n  %s.\n\n' % body)
        f.write('Definition crc16_u16_first : expr := %s.\n' % a1)
        f.write('Definition crc16_u16_second : expr := %s.\n' % a2)

    write_if_changed(out, f.getvalue())

if __name__ == '__main__':
    try:
        main(sys.argv[1])
    except Untranslatable as e:
        print('UNTRANSLATABLE: %s' % e); sys.exit(2)
