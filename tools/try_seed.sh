#!/bin/sh
# tools/try_seed.sh <patch.diff> <Cxx> : apply a seeded change to /repo, run the quick check, undo.
P=$1; ID=$2
cd /repo || exit 2
git apply --check "$P" || { echo "patch does not apply"; exit 2; }
git apply "$P"
cd /verif; ./check $ID --tier quick > .work/seed_$ID.log 2>&1; rc=$?
git -C /repo checkout -- .
echo "check rc=$rc"; grep -c '^VIOLATION' .work/seed_$ID.log; grep '^VIOLATION\|^# C' .work/seed_$ID.log | head -5
