#!/bin/sh
# tools/take_seedx.sh <Cxx> <suffix> : a further seeded change of a property: /tmp/wt-<Cxx><suffix> -> seeded/<Cxx><suffix>/, confirm, try, clean up.
ID=$1; S=$2; W=/tmp/wt-${ID}${S}; D=/verif/seeded/${ID}${S}
mkdir -p $D
cp $W/patch.diff $D/patch.diff && cp $W/demo.c $D/demo.c && cp $W/meta.txt $D/agent-notes.txt || exit 2
git -C /repo worktree remove --force $W
rm -rf /tmp/build-${ID}${S} /tmp/demo-${ID}${S}
/verif/tools/confirm_seed.sh ${ID}${S} $D/patch.diff $D/demo.c 2>&1 | tee $D/.confirm.txt
/verif/tools/try_seed.sh $D/patch.diff $ID 2>&1 | tee $D/.try.txt
