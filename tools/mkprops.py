#!/usr/bin/env python3
"""tools/mkprops.py <Cxx> <spec.py>: write coq/Properties_<Cxx>.v from a list of (theorem name, lemma, comment):
the statement is printed by Coq itself (Check), so the property file restates exactly what was proved and closes it
with `exact lemma`.  One-off generator; the generated file is committed and compiled like any other."""
import sys, subprocess, re, os
pid, spec = sys.argv[1], sys.argv[2]
ns = {}
exec(open(spec).read(), ns)
HEADER, IMPORTS, ITEMS = ns['HEADER'], ns['IMPORTS'], ns['ITEMS']
script = IMPORTS + '\nSet Printing Width 118.\nSet Printing Depth 1000.\n' + ''.join('Check @%s.\n' % l for _, l, _ in ITEMS)
open('/tmp/w/chk.v', 'w').write(script)
out = subprocess.run(['coqc', '-Q', '.', 'Ufw', '/tmp/w/chk.v'], cwd='/verif/coq', capture_output=True, text=True)
if out.returncode:
    print(out.stdout[-2000:], out.stderr[-2000:]); sys.exit(1)
blocks = re.split(r'\n(?=\S)', out.stdout.strip())
stmts = {}
for b in blocks:
    m = re.match(r'^(\S+)\s*\n?\s*:\s*(.*)$', b, flags=re.S)
    if m:
        stmts[m.group(1).lstrip('@')] = m.group(2).rstrip()
o = [HEADER, IMPORTS, '']
for name, lemma, comment in ITEMS:
    key = lemma.split('.')[-1]
    st = stmts.get(lemma) or stmts.get(key)
    if st is None:
        print('no statement for', lemma, list(stmts)[:5]); sys.exit(1)
    if comment:
        o.append('(* %s *)' % comment)
    o.append('Theorem %s :\n  %s.\nProof. exact (@%s). Qed.\nPrint Assumptions %s.\n' % (name, st.replace('\n', '\n  '), lemma, name))
o.append(ns.get('EXTRA', ''))
open('/verif/coq/Properties_%s.v' % pid, 'w').write('\n'.join(o))
print('written', len(ITEMS), 'theorems')
