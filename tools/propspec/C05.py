HEADER = '''(* C05  Register constraints are an invariant of every checked-operation history.
   Statements only (printed by Coq from the lemmas they are closed with); proofs in Proof/RegLemmas.v, Proof/RegInvariant.v; model Model/RegTable.v.
   [Inv t]: the table is initialised, its entries are ordered and disjoint, every register lies wholly inside one area, all words are 16 bit,
   and every register whose words decode holds a value that satisfies its constraint.
   [InvB t]: Inv t and the areas are ordered, disjoint and full.
   Proved: InvB is preserved by EVERY checked operation - typed set, bit set, bit clear, block write (across area borders) and sanitise, accepted
   or refused - and hence by every history of them; under it every value a get delivers satisfies its register's constraint.
   Outside the invariant by construction: registers with the always-failing constraint (their default only validates during initialisation). *)'''
IMPORTS = '''From Ufw Require Import Base.Bits Model.RegTable Proof.RegLemmas Proof.RegInitLemmas Proof.RegInvariant Proof.RegMemory Proof.RegBlockInv Proof.RegInitInv Proof.RegSanitise.
From Coq Require Import Bool Lia.
Local Open Scope N_scope.'''
ITEMS = [
 ('C05_invariant_established_by_init', 'init_establishes_invariant', 'the invariant is established by a successful initialisation of a plain table (memory-backed, default-loading areas; no always-failing constraint)'),
 ('C05_history_invariant_all', 'history_invariant_all', 'the invariant survives every history of checked operations: typed set, bit set, bit clear, block write, sanitise'),
 ('C05_history_get_all', 'history_get_all', 'after any such history every value a get delivers satisfies the constraint of its register'),
 ('C05_block_write_preserves', 'block_write_preserves', 'one block write, accepted or refused, across area borders'),
 ('C05_sanitise_preserves', 'sanitise_preserves', 'one sanitise run'),
 ('C05_sanitise_after_corruption', 'sanitise_after_corruption', 'the sanitise clause: from a table satisfying the invariant, through ARBITRARY out-of-band corruption of the stored words, a successful sanitise leads back to the invariant; every register whose (corrupted) content decodes and satisfies its constraint keeps it, every other register holds its default, all touched marks are cleared'),
 ('C05_sanitise_restores', 'sanitise_restores', 'the same from any structurally intact table (no assumption about the stored values)'),
 ('C05_corruption_keeps_structure', 'corrupted_sinv', 'what corruption cannot change: flags, byte order, register list, geometry, word width'),
 ('C05_history_invariant', 'history_invariant', 'the invariant survives every history of checked typed operations with well-typed operands'),
 ('C05_history_get', 'history_get', 'after any such history every value a get delivers satisfies the constraint of its register'),
 ('C05_invariant_means', 'inv_get', 'what the invariant gives a reader'),
 ('C05_checked_set_preserves', 'checked_set_preserves', 'one checked set, accepted or refused'),
 ('C05_bitop_preserves', 'bitop_preserves', 'one bit operation, accepted or refused'),
 ('C05_frame', 'entry_words_frame', 'the frame: storing one register leaves the words (and the placement) of every register it does not meet untouched'),
 ('C05_distinct_registers_do_not_meet', 'chain_distinct', 'in an ordered table two registers whose word ranges meet are the same register'),
 ('C05_checked_set_establishes_constraint', 'checked_set_establishes_constraint', 'a register written by a successful checked set satisfies its constraint and reads back the value'),
 ('C05_refused_set_unchanged', 'setx_refused_unchanged', 'a refused set changes nothing'),
 ('C05_refused_bitop_unchanged', 'bitop_refused_unchanged', 'a refused bit operation changes nothing'),
 ('C05_refused_block_write_unchanged', 'block_write_failure_atomic', 'a refused block write changes nothing'),
 ('C05_block_write_validates', 'block_write_success_validated', 'a block write succeeds only if every overlapped register decodes and validates after the overlay'),
 ('C05_bit_ops', 'bitop_spec', 'bit set / clear change exactly the requested bits of unsigned registers'),
]
EXTRA = '''
(* the invariant is satisfiable, and a history on it: refused operations leave the old value *)
Definition ex_area : area := {| a_base := 0; a_size := 4; a_readable := true; a_writeable := true; a_skip := false; a_has_read := true;
                   a_has_write := true; a_is_mem := true; a_words := [5; 0; 0; 0]; a_first := 0; a_last := 1; a_count := 2 |}.
Definition ex_table : table :=
  {| t_init := true; t_during := false; t_be := false; t_areas := [ex_area];
     t_entries := [ {| e_type := TU16; e_default := 5; e_addr := 0; e_check := CRange 1 10; e_touched := false |};
                    {| e_type := TU32; e_default := 0; e_addr := 1; e_check := CMax 100; e_touched := false |} ] |}.
Example C05_invariant_holds_somewhere : Inv ex_table.
Proof.
  constructor; try reflexivity.
  - cbn. lia.
  - repeat constructor; exists 0%nat, ex_area; (split; [reflexivity|split; [cbn; lia|reflexivity]]).
  - repeat constructor; cbn; lia.
  - repeat constructor; intros ws Hw; vm_compute in Hw; injection Hw as <-; intros _; vm_compute; reflexivity.
Qed.
Example C05_history_example :
  let ops := [OpSet 0 {| v_type := TU16; v_bits := 11 |}; OpSet 0 {| v_type := TU16; v_bits := 7 |}; OpBitSet 0 {| v_type := TU16; v_bits := 8 |};
              OpSet 1 {| v_type := TU32; v_bits := 99 |}] in
  reg_get (fold_left run_cop ops ex_table) 0 = ((ASuccess, 0), Some {| v_type := TU16; v_bits := 7 |}) /\\
  reg_get (fold_left run_cop ops ex_table) 1 = ((ASuccess, 0), Some {| v_type := TU32; v_bits := 99 |}).
Proof. split; vm_compute; reflexivity. Qed.

(* the sanitise clause is not vacuous: the example table with its first register corrupted to 0 (outside 1..10) and the second to
   0x00010000 = 65536 (above 100): sanitise succeeds and both registers hold their defaults again *)
Definition ex_corrupt : table :=
  {| t_init := true; t_during := false; t_be := false;
     t_areas := [ {| a_base := 0; a_size := 4; a_readable := true; a_writeable := true; a_skip := false; a_has_read := true;
                     a_has_write := true; a_is_mem := true; a_words := [0; 0; 1; 7]; a_first := 0; a_last := 1; a_count := 2 |} ];
     t_entries := t_entries ex_table |}.
Example C05_sanitise_example :
  InvB ex_table /\\ defaults_typed ex_table /\\ corrupted ex_table ex_corrupt /\\
  match sanitise ex_corrupt with
  | ((ASuccess, _), t') => map a_words (t_areas t') = [[5; 0; 0; 7]]
  | _ => False
  end.
Proof.
  split; [split; [exact C05_invariant_holds_somewhere|]|].
  - split; [cbn; exact I|]. repeat constructor.
  - split; [repeat constructor; cbn; lia|]. split.
    + repeat split; repeat constructor; cbn; lia.
    + vm_compute. reflexivity.
Qed.
'''
