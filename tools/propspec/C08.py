HEADER = '''(* C08  Every emitted frame is spec-conformant and round-trips through the receiver.
   Statements only (printed by Coq from the lemmas they are closed with); proofs in Proof/RegpLemmas.v,
   Proof/RegpSpecLemmas.v, Proof/RegpFraming.v; model Model/Regp.v; independent reading of doc/regp.txt: Model/RegpSpec.v. *)'''
IMPORTS = '''From Ufw Require Import Base.Bits Base.Errno Model.Crc Model.ByteBuffer Model.Endpoints Model.Varint Model.Slip Model.Lenp
  Model.Regp Model.RegpSpec Proof.LenpLemmas Proof.RegpFraming Proof.RegpLemmas Proof.RegpSpecLemmas.
From Coq Require Import ZArith String List.
From Ufw Require Import Base.Cexpr Gen.Consts Gen.RegpMotvGen Proof.RegpMotvSweep Proof.RegpMotvT.
From Coq Require Import Bool Lia.
Local Open Scope N_scope.
Local Open Scope bool_scope.'''
ITEMS = [
 ('C08_T_first_header_word', 'make_motv_tie_source', 'TRANSLATOR TIE (Gen/RegpMotvGen.v is regenerated from src/register-protocol.c on every check): the first header word that make_motv assembles with shifts and ors in 16/32-bit arithmetic - version, frame type, option bits, meta code - is the number the model computes, for every instance, memory semantics, meta code (8 bits, of which the frame keeps 4), frame type and block size; the enumeration constants and MSEM_* macros are the ones tools/consts2coq.py reads from the source'),
 ('C08_emitters_are_conforming_frames', 'emit_eq', 'every emitter (read/write requests 8/16 bit, acknowledge, eleven error responses, meta) sends framing(header ++ payload) of one header encoder'),
 ('C08_emitters_conform', 'emit_conforming', 'with arguments in range, the frame is conforming: existing type/code pair, field ranges, payload size = block size in the frame\'s word size'),
 ('C08_header_round_trip', 'parse_emitted', 'the receiver\'s header parser reads back type, option bits, code, sequence number, address, block size and both checksums'),
 ('C08_frame_accepted', 'parse_frame_emitted', 'and the payload checks pass: the frame is accepted with exactly the payload octets that were sent'),
 ('C08_deframe', 'deframe_frame_wire', 'framing round trip on both transports: SLIP (serial) and varint length prefix (TCP), any payload octets incl. SLIP control characters, any rest of stream'),
 ('C08_received_by_own_receiver', 'recv_emitted', 'the library\'s receiver on the same transport hands out exactly the emitted frame, sends nothing, and leaves the rest of the stream'),
 ('C08_wire_is_what_the_document_prescribes', 'emitted_is_spec', 'header ++ payload equal the octets of the independent reading: big-endian fields, CRC-16/ARC header and payload checksums exactly on serial links, payload checksum only with payload'),
 ('C08_sequence_numbers', 'requests_sequence', 'successive requests of a session carry sequence numbers increasing by one modulo 2^16'),
]
EXTRA = '''
(* the premises are satisfiable: a 16-bit write request of two words on a serial link *)
Example C08_nonvacuous :
  let p := {| g_mem16 := true; g_serial := true; g_seq := 65535; g_blocksize := 128 |} in
  emit_valid p 3 0 0 100 2 0 [192; 219; 3; 4] /\\
  fst (emit p 3 0 0 100 2 0 [192; 219; 3; 4])
  = [7; 32; 255; 255; 0; 0; 0; 100; 0; 0; 0; 2; 86; 94; 8; 77; 219; 220; 219; 221; 3; 4; 192].
Proof.
  split; [|vm_compute; reflexivity].
  unfold emit_valid, octets; cbn; repeat split; try lia; try discriminate.
  repeat (constructor; [lia|]). constructor.
Qed.
'''
