HEADER = '''(* C09  Receiving and processing arbitrary input is memory-safe and resource-exact.
   Statements only (printed by Coq from the lemmas they are closed with); proofs in Proof/RegpLemmas.v; model Model/Regp.v.
   What a theorem about the model can carry: the index arithmetic (what is stored stays inside the block, the buffers handed to
   the backend are large enough, payloads are as long as announced), the allocator ledger, and the classification of oversize, short,
   empty frames and allocation failures.  The compiled code's real accesses are observed by ASan/UBSan on the executed cases. *)'''
IMPORTS = '''From Ufw Require Import Base.Bits Base.Errno Model.Crc Model.ByteBuffer Model.Endpoints Model.Varint Model.Slip Model.Lenp
  Model.Regp Proof.LenpLemmas Proof.RegpFraming Proof.RegpLemmas.
From Coq Require Import Bool Lia.
Local Open Scope N_scope.
Local Open Scope bool_scope.'''
ITEMS = [
 ('C09_reception_cases', 'recv_cases',
  'every outcome of a reception, for any source, block size and allocator verdict: channel error (nothing handed out, the block released by the '
  'receiver); empty frame = bad header encoding + EHEADERENC, nothing allocated; allocation failure = EBUSY + busy reply built from the first 16 octets; '
  'frame larger than the room behind the frame structure = ENOMEM + receive-overflow reply built from the header octets that were stored; otherwise '
  'the parser\'s verdict'),
 ('C09_every_block_released_exactly_once', 'recv_ledger',
  'a block is allocated iff it is either released by the receiver (exactly on a channel error) or handed to the caller (who releases it with regp_free); never both; none on allocation failure'),
 ('C09_accepted_frame_inside_block', 'recv_accepted', 'an accepted frame was stored completely inside the room of the block'),
 ('C09_parsed_header_shape', 'parse_header_shape', 'payload = what follows the 12..16 header octets inside the received octets; fields in range'),
 ('C09_backend_buffers', 'process_request',
  'the read buffer handed to the backend holds at least the requested block and lies behind the header inside the block (unit * room <= block size - frame structure - header); '
  'a read that does not fit is answered with ETXOVERFLOW carrying the buffer size; a write hands over exactly the received payload (whose length is the announced block, C06/C07)'),
 ('C09_reception_terminates', 'recv_total', 'a reception terminates on every finite input, on both transports (never a hang: the model never runs out of fuel)'),
 ('C09_session_balance', 'serve_balanced', 'after every round of any session history: allocations = releases'),
]
EXTRA = '''
(* the premises are satisfiable; an oversize frame (15 octets for 13 octets of room) and an allocation failure *)
Example C09_nonvacuous :
  let p := {| g_mem16 := false; g_serial := false; g_seq := 0; g_blocksize := 77 |} in
  let stream := [14; 0; 32; 0; 7; 0; 0; 0; 100; 0; 0; 0; 2; 1; 2] in
  (match regp_recv p (src_plain false stream) true with
   | Some r => Some (rr_errid r, rr_reply r, rr_block_to_caller r) | None => None end
   = Some (Some ENOMEM, [12; 64; 48; 0; 7; 0; 0; 0; 100; 0; 0; 0; 0], true)) /\\
  (match regp_recv p (src_plain false stream) false with
   | Some r => Some (rr_errid r, rr_reply r, rr_allocated r) | None => None end
   = Some (Some EBUSY, [12; 96; 48; 0; 7; 0; 0; 0; 100; 0; 0; 0; 0], false)).
Proof. split; vm_compute; reflexivity. Qed.
'''
