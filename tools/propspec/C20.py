HEADER = '''(* C20  The s-expression reader inverts printing and fails cleanly on anything else.
   Statements only (printed by Coq from the lemmas they are closed with); proofs in Proof/SxLemmas.v; model Model/Sx.v.
   [renders t s]: s is a textual rendering of the tree t - symbols, decimal or #x hexadecimal integers in either letter case, nested proper
   lists incl. empty ones, arbitrary white space around list elements.  The model reader is a function of the n given octets only (it cannot read
   outside them); that the compiled code does not either, and that it frees what it allocated, is observed under ASan on exact-size blocks. *)'''
IMPORTS = '''From Ufw Require Import Base.Bits Model.Sx Proof.SxLemmas.
From Coq Require Import Bool Lia.
Local Open Scope N_scope.
Local Open Scope bool_scope.'''
ITEMS = [
 ('C20_reader_inverts_printing', 'parse_printed', 'any rendering of any tree, behind any white space and in front of any rest (an atom must be followed by the end or a delimiter), is read back as the structurally identical tree, at the position just past the expression'),
 ('C20_decimal_numerals', 'decimal_reads_back', 'the decimal numeral of any 64-bit value reads back as that value'),
 ('C20_hexadecimal_numerals', 'hexadecimal_reads_back', 'the hexadecimal numeral of any 64-bit value, in any mixture of letter cases, reads back as that value'),
 ('C20_numeral_value', 'number_value', 'in general: the value read is the positional value of the digits'),
 ('C20_accepted_means_printed', 'sx_parse_sound', 'whatever the reader accepts is optional white space and a rendering of the returned tree, inside the input; the position is its end'),
 ('C20_everything_else_is_rejected', 'sx_parse_rejects', 'an input that does not begin, after optional white space, with a complete expression yields an error status (and the model returns no tree with an error)'),
 ('C20_reader_terminates', 'sx_parse_total', 'the reader terminates on every input (the fuel of the model, length + 1, is never exhausted)'),
 ('C20_list_elements', 'parse_list_sound', 'the same for the elements of a list up to its closing parenthesis'),
]
EXTRA = '''
(* the premises are satisfiable *)
Example C20_nonvacuous :
  (* "(a () #xfF)" *)
  let text := [40; 97; 32; 40; 41; 32; 35; 120; 102; 70; 41] in
  renders (list_of [Sym [97]; list_of []; Int 255]) text /\\
  sx_parse (32 :: text ++ [32; 120]) = Some (ROk (Cons (Sym [97]) (Cons Nil (Cons (Int 255) Nil))) 12).
Proof.
  split; [|vm_compute; reflexivity].
  apply (R_list [Sym [97]; list_of []; Int 255]).
  apply (RE_cons [] (Sym [97]) _ [97] [32; 40; 41; 32; 35; 120; 102; 70; 41]); [reflexivity| | |intros _; reflexivity].
  - apply R_atom, A_sym. split; reflexivity.
  - apply (RE_cons [32] (list_of []) _ [40; 41] [32; 35; 120; 102; 70; 41]); [reflexivity| | |discriminate].
    + apply (R_list [] [41]). apply (RE_nil []). reflexivity.
    + apply (RE_cons [32] (Int 255) [] [35; 120; 102; 70] [41]); [reflexivity| | |intros _; reflexivity].
      * apply R_atom. apply (A_hex [102; 70]); [discriminate|reflexivity].
      * apply (RE_nil []). reflexivity.
Qed.
'''
