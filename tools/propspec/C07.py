HEADER = '''(* C07  Corrupted frames are never executed nor acknowledged.
   Statements only (printed by Coq from the lemmas they are closed with); proofs in Proof/RegpSpecLemmas.v (the receiver model =
   the independent reading of doc/regp.txt), Proof/CrcDetect.v (what CRC-16/ARC detects), Proof/RegpCorrupt.v (damaged frames).
   Bursts are measured in transmission order (least significant bit of each octet first).
   The property as stated is FALSE for one class of frames: C07_burst_refuted exhibits a 9-bit burst on a read request that is accepted
   (KNOWN_FINDINGS.txt C07-burst-header-crc-boundary); C07_boundary_bursts_exactly characterises the class (63 patterns), the other theorems
   are the part of the property that holds (C07_..._partial in DESIGN.md's terms). *)'''
IMPORTS = '''From Ufw Require Import Base.Bits Base.Errno Model.Crc Model.Varint Model.Slip Model.Regp Model.RegpSpec
  Proof.CrcDetect Proof.RegpLemmas Proof.RegpSpecLemmas Proof.RegpCorrupt.
From Coq Require Import Bool Lia.
Local Open Scope N_scope.
Local Open Scope bool_scope.'''
ITEMS = [
 ('C07_verdict_is_the_documents', 'classify_agrees', 'for an arbitrary octet sequence the receiver\'s verdict equals that of the independent reading of the protocol document; in particular the payload checksum is verified whenever the frame declares one'),
 ('C07_verdict_vocabulary', 'to_sverdict_parse_frame', 'the four error ids are the four fault classes'),
 ('C07_payload_faults_answered', 'process_payload_fault', 'payload faults of requests are answered with the error response, header faults by the meta message (C09_reception_cases); nothing is executed (C06_failed_reception_never_executes)'),
 ('C07_crc_linear', 'crc_error', 'CRC-16/ARC of a damaged message = CRC of the message xor CRC of the damage'),
 ('C07_crc_detects_bursts', 'burst_detected', 'any damage inside a window of 16 consecutive bits, anywhere in a message of any length'),
 ('C07_crc_detects_two_bits', 'two_bits_detected', 'any two damaged bits less than 32767 bits apart'),
 ('C07_header_fields_partial', 'hd_corruption', 'frames without payload-checksum field: damage e on sequence/address/size, x on the stored checksum is reported as header-checksum fault unless CRC(e) = x'),
 ('C07_header_fields_unseen', 'hd_corruption_unseen', '... and when CRC(e) = x the header check passes (the frame is then judged by its payload size only)'),
 ('C07_header_fields_inside', 'hd_fields_error', 'in particular every burst and every two-bit error inside the protected fields (CRC(e) <> 0 by the two theorems above) ...'),
 ('C07_header_checksum_inside', 'hd_checksum_error', '... and every error confined to the stored checksum'),
 ('C07_mixed_two_bits', 'mixed_two_bits', 'one damaged bit in the protected octets and one in the stored checksum: the CRC of a single-bit error is never a single bit'),
 ('C07_boundary_bursts_exactly', 'nopl_boundary_burst', 'bursts across the last block-size octet and the stored checksum: invisible to the header check exactly for the 63 listed patterns'),
 ('C07_unseen_patterns', 'unseen_count', 'their number'),
 ('C07_cross_checked_frames_partial', 'nopl_frame_fault', 'for frames whose block size is cross-checked against the payload (responses, writes) these bursts change the block size and are reported as size fault'),
 ('C07_payload_frames_partial', 'pl_frame_fault', 'frames with payload-checksum field: every damage behind the first word that the header check misses changes block size or payload checksum and is reported'),
 ('C07_payload_frames_header', 'hd_pl_corruption', 'same layout: the header-checksum criterion'),
 ('C07_payload_frames_checksum', 'hd_pl_checksum_error', 'same layout: any error confined to the stored header checksum'),
 ('C07_payload_octets', 'payload_error', 'damaged payload octets (burst, two bits: CRC of the damage <> 0) are reported as payload-checksum fault'),
 ('C07_first_word_other_bits', 'first_word_other_bits', 'a single damaged bit in the first header word, other than the two checksum option bits: malformed header or header-checksum fault'),
 ('C07_first_word_hdcrc_bit', 'first_word_hdcrc_bit', 'the header-checksum option bit: the checksum octets count as payload, size fault'),
 ('C07_first_word_plcrc_bit', 'first_word_plcrc_bit', 'the payload-checksum option bit: header too short, header-checksum fault or size fault'),
 ('C07_resized_frames', 'resized_payload_hd', 'truncated or extended behind an intact header: size fault'),
 ('C07_resized_frames_pl', 'resized_payload_hd_pl', 'the same with payload checksum'),
 ('C07_truncated_header', 'truncated_header', 'cut inside the header it announces (incl. the empty frame): bad header encoding'),
 ('C07_burst_refuted', 'burst_unseen_witness', 'REFUTATION of the burst clause: a valid read request for 5 octets, a 9-bit burst, a valid read request for 9 octets'),
]
EXTRA = ''
