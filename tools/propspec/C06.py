HEADER = '''(* C06  A valid request is executed exactly once and answered faithfully.
   Statements only (printed by Coq from the lemmas they are closed with); proofs in Proof/RegpLemmas.v; model Model/Regp.v. *)'''
IMPORTS = '''From Ufw Require Import Base.Bits Base.Errno Model.Crc Model.ByteBuffer Model.Endpoints Model.Varint Model.Slip Model.Lenp
  Model.Regp Proof.LenpLemmas Proof.RegpFraming Proof.RegpLemmas.
From Coq Require Import Bool Lia.
Local Open Scope N_scope.
Local Open Scope bool_scope.'''
ITEMS = [
 ('C06_request_executed_once', 'process_request',
  'a successfully received request: a word-size mismatch is answered with EWORDSIZE without any access; a read that cannot fit with ETXOVERFLOW '
  'without any access; otherwise exactly one backend call with the request\'s address and block size (and, for writes, exactly the received payload; '
  'for reads a buffer of at least that many words inside the block), and the reply is the one prescribed for the backend\'s verdict'),
 ('C06_reply_is_faithful', 'reply_decodes',
  'the reply for any of the twelve verdicts, received by the requester: matching response type, the verdict as code, the request\'s sequence number '
  'and address, and as payload exactly the delivered words (acknowledge), the buffer size resp. the reported address as four big-endian octets '
  '(ERXOVERFLOW/ETXOVERFLOW resp. EUNMAPPED..EINVALID) in octet semantics, nothing otherwise'),
 ('C06_reply_shape', 'reply_shape', 'the same reply as a conforming frame of the header encoder (what C08 is about)'),
 ('C06_responses_and_meta_are_silent', 'process_silent', 'responses and meta messages cause neither an access nor a reply'),
 ('C06_failed_reception_never_executes', 'process_no_access', 'a frame that failed reception (channel error, any error id, no frame) or is no request never causes a memory access'),
 ('C06_payload_faults_are_answered', 'process_payload_fault', 'payload faults of requests are answered with EPAYLOADCRC / EPAYLOADSIZE (C07), of other frames with nothing'),
 ('C06_every_round_of_a_session', 'serve_balanced', 'in any session history every round performs at most one access (and releases what it allocated, C09)'),
]
EXTRA = '''
(* the premises are satisfiable: a 16-bit read of two words on TCP, served from a 128-octet block *)
Example C06_nonvacuous :
  let p := {| g_mem16 := true; g_serial := false; g_seq := 0; g_blocksize := 128 |} in
  match regp_recv p (src_plain false [12; 1; 0; 0; 7; 0; 0; 0; 100; 0; 0; 0; 2]) true with
  | Some r => Some (rr_rc r, rr_errid r, option_map is_request (rr_frame r), regp_process p r (backend_of true (0, 0, 5)))
  | None => None
  end
  = Some (RcOk, None, Some true,
          ([{| bc_write := false; bc_addr := 100; bc_bsize := 2; bc_payload := []; bc_room := 26 |}],
           Some [16; 1; 16; 0; 7; 0; 0; 0; 100; 0; 0; 0; 2; 5; 18; 31; 44])).
Proof. vm_compute. reflexivity. Qed.
'''
