HEADER = '''(* C04  Table initialisation accepts exactly the well-formed tables.
   Statements only (printed by Coq from the lemmas they are closed with); proofs in Proof/RegLemmas.v, Proof/RegInitLemmas.v;
   model Model/RegTable.v (reg_init mirrors register_init step by step and is tied to it by correspondence over the layout grid).
   The post-state is proved for plain tables (all areas memory-backed and default-loading); for tables with callback-backed, read-only
   or skip-defaults areas it is correspondence-tested only. *)'''
IMPORTS = '''From Ufw Require Import Base.Bits Model.RegTable Proof.RegLemmas Proof.RegInitLemmas Proof.RegInvariant Proof.RegMemory Proof.RegBlockInv Proof.RegInitInv Proof.RegInitZero Proof.RegLink.
From Coq Require Import ZArith.
From Ufw Require Import Base.Cexpr Gen.RegLeafGen Proof.RegLeafT.
Local Open Scope N_scope.'''
ITEMS = [
 ('C04_success_iff', 'init_success_iff', 'initialisation succeeds exactly when there is an area, the areas and the entries are each ordered and disjoint (every element starts at or behind the end of its predecessor), and the defaults load'),
 ('C04_defaults_all_fit', 'load_defaults_all_fit', '... and the defaults load only if every register lies wholly inside one area'),
 ('C04_default_codes', 'load_defaults_code', 'the only other reasons: a register outside one area, or a default its own constraint refuses'),
 ('C04_first_error', 'init_first_error', 'otherwise it reports the FIRST violated rule, in the order: no areas < area order/overlap < entry order/overlap < entry placement/default, with the index of the offending element'),
 ('C04_area_check', 'check_areas_spec', 'the area check reports the first area that starts before the end of its predecessor: order fault when it starts before the predecessor itself, overlap otherwise'),
 ('C04_entry_check', 'check_entries_spec', 'likewise for the entries'),
 ('C04_first_break_none', 'first_break_none', 'no such element iff the list is a chain'),
 ('C04_first_break_is_first', 'first_break_some', 'the reported element is the first: everything before it is a chain'),
 ('C04_post_state', 'init_establishes_invariant', 'after a successful initialisation of a plain table (memory-backed, default-loading areas; no always-failing constraint; typed defaults) the entries are unchanged, every register reads back its default, and the constraint invariant of C05 holds'),
 ('C04_post_state_other_words_zero', 'init_other_words_zero', 'post-state, second half: every word of the table memory that no register covers is zero after a successful initialisation'),
 ('C04_post_state_area_fields', 'init_area_fields', 'post-state, third part: the first / last / count fields of every area describe exactly the registers whose address lies in the area, a contiguous run of the register list'),
 ('C04_link_fields_spec', 'link_area_spec', 'the same for the linking step alone, any ordered register list and any area'),
 ('C04_T_address_in_area', 'C_ra_addr_is_part_of', 'TRANSLATOR TIE (Gen/RegLeafGen.v is regenerated from src/registers/core.c on every check): the 32-bit membership test of the C code is the membership predicate of the model for every area inside the 32-bit address space, including areas that reach its last address'),
 ('C04_T_register_fits_area', 'C_ra_reg_fits_into', '... and its test that a register located in an area lies wholly inside it is the comparison of the (unrepresentable) end addresses that the model makes'),
 ('C04_T_end_address_form_refuted', 'old_end_address_form_refuted', 'the pre-repair form of the membership test (end address computed in 32 bits) disagrees with the model on the area 0xfffffff0+16, where the repaired one agrees: defect 36'),
 ('C04_failure_uninitialised', 'init_failure_uninit', 'a failed initialisation leaves the table uninitialised'),
 ('C04_flag_iff_success', 'init_flag_iff_success', 'the initialised flag is set exactly by a successful initialisation'),
 ('C04_uninitialised_operations', 'uninit_everything', 'on an uninitialised table every operation reports UNINITIALISED and changes nothing'),
]
EXTRA = '''
(* non-vacuity: overlapping areas are reported at the second area; a register straddling the area end at its index *)
Example C04_example :
  let mk b s := {| a_base := b; a_size := s; a_readable := true; a_writeable := true; a_skip := false; a_has_read := true;
                   a_has_write := true; a_is_mem := true; a_words := repeat 7 (N.to_nat s); a_first := 0; a_last := 0; a_count := 0 |} in
  let e ty ad := {| e_type := ty; e_default := 1; e_addr := ad; e_check := CTrivial; e_touched := false |} in
  fst (reg_init {| t_init := false; t_during := false; t_be := false; t_areas := [mk 0 4; mk 3 2]; t_entries := [] |}) = (IAreaOverlap, 1) /\\
  fst (reg_init {| t_init := false; t_during := false; t_be := false; t_areas := [mk 0 4]; t_entries := [e TU16 0; e TU32 3] |}) = (IEntryHole, 1) /\\
  fst (reg_init {| t_init := false; t_during := false; t_be := false; t_areas := [mk 0 4]; t_entries := [e TU16 0; e TU32 2] |}) = (ISuccess, 0).
Proof. repeat split; vm_compute; reflexivity. Qed.

(* the post-state theorems are not vacuous: a plain table (stale memory content 7) whose initialisation succeeds; afterwards the
   registers hold their defaults, the word no register covers is zero and the area records registers 0..1 *)
Example C04_post_state_example :
  let a := {| a_base := 0; a_size := 4; a_readable := true; a_writeable := true; a_skip := false; a_has_read := true;
              a_has_write := true; a_is_mem := true; a_words := [7; 7; 7; 7]; a_first := 0; a_last := 0; a_count := 0 |} in
  let e ty ad := {| e_type := ty; e_default := 1; e_addr := ad; e_check := CTrivial; e_touched := false |} in
  let t := {| t_init := false; t_during := false; t_be := false; t_areas := [a]; t_entries := [e TU16 0; e TU32 2] |} in
  plain_table t /\\
  match reg_init t with
  | ((ISuccess, _), t') => map (fun b => (a_words b, a_first b, a_last b, a_count b)) (t_areas t') = [([1; 0; 1; 0], 0, 1, 2)]
  | _ => False
  end.
Proof.
  split.
  - split; repeat constructor; cbn; try discriminate; lia.
  - vm_compute. reflexivity.
Qed.
'''
