HEADER = '''(* C17  Endpoints move exactly N octets in order whatever the driver does.
   Statements only (printed by Coq from the lemmas they are closed with); proofs in Proof/EndpointsLemmas.v, Proof/EndpointsTotal.v;
   model Model/Endpoints.v (scripted drivers: every driver call consumes one behaviour event Give k | Zero | Intr | Again | Fail e; behind the
   script the driver delivers what is asked until the stream ends).
   Proved for EVERY script, octet- and chunk-style drivers: the get/put sides and their at-most variants incl. termination of the retry loops;
   the per-octet, counted and draining source-to-sink plumbing without auxiliary buffer for every source script and every sink that accepts
   or fails hard.  Correspondence only (partial): the plumbing variants with an auxiliary buffer, sinks that return 0 / EINTR / EAGAIN on a
   single octet inside the plumbing (the octet already taken from the source is dropped there: outside the stated domain). *)'''
IMPORTS = '''From Ufw Require Import Base.Bits Base.Errno Model.Endpoints Proof.EndpointsLemmas Proof.EndpointsTotal.
From Coq Require Import Lia.
Local Open Scope N_scope.'''
ITEMS = [
 ('C17_get', 'get_chunk_exact', 'reading N octets: what is delivered followed by what the driver still holds is the original stream (no loss, duplication, reordering); success = exactly the next N octets; EINTR/EAGAIN never surface'),
 ('C17_get_terminates', 'get_chunk_total', '... and it always returns, whatever the driver does'),
 ('C17_get_invalid', 'get_chunk_invalid', 'N = 0 or N > SSIZE_MAX is refused without a driver call'),
 ('C17_get_atmost', 'get_chunk_atmost_bound', 'the at-most variant never delivers more than asked and reports the count delivered'),
 ('C17_put', 'put_chunk_exact', 'writing N octets: what reached the sink is a prefix of the data; success = all N, in order'),
 ('C17_put_terminates', 'put_chunk_total', '... and it always returns'),
 ('C17_put_invalid', 'put_chunk_invalid', 'N = 0 or N > SSIZE_MAX is refused'),
 ('C17_put_atmost', 'once_put_spec', 'the at-most variant'),
 ('C17_atmost_terminate', 'once_get_total', 'the at-most variants return'),
 ('C17_atmost_put_terminates', 'once_put_total', ''),
 ('C17_plumbing_counted', 'sts_n_spec', 'source-to-sink, counted: exactly the next n octets reach the sink in order, or an error is returned and what reached the sink is a prefix of the stream (at most the one octet in flight is lost)'),
 ('C17_plumbing_counted_terminates', 'sts_n_total', ''),
 ('C17_plumbing_drain', 'sts_drain_spec', 'source-to-sink, draining: everything up to the point where source or sink ended it reached the sink, in order'),
 ('C17_plumbing_drain_terminates', 'sts_drain_total', ''),
 ('C17_plumbing_one_octet', 'sts_cbc_spec', 'one octet through'),
]
EXTRA = '''
(* non-vacuity: a chunk driver that gives 2, then nothing, is interrupted, then gives the rest; a counted transfer into a sink that fails at the third octet *)
Example C17_example :
  source_get_chunk {| s_octet := false; s_stream := [1;2;3;4;5;6]; s_script := [Give 2; Zero; Intr; Give 1]; s_calls := 0 |} 5
  = Some (DOk 5, [1;2;3;4;5],
          {| s_octet := false; s_stream := [6]; s_script := []; s_calls := 5 |}).
Proof. vm_compute. reflexivity. Qed.
Example C17_plumbing_example :
  let k := {| k_octet := true; k_got := []; k_script := [Give 1; Give 1; Fail EIO]; k_calls := 0 |} in
  steady k /\\
  match sts_n (src_plain false [1;2;3;4;5]) k 4 with
  | Some (r, s', k') => (r, s_stream s', k_got k') = (DErr EIO, [4;5], [1;2])
  | None => False
  end.
Proof. split; [repeat constructor; cbn; lia|vm_compute; reflexivity]. Qed.
'''
