HEADER = '''(* C17  Endpoints move exactly N octets in order whatever the driver does.
   Statements only (printed by Coq from the lemmas they are closed with); proofs in Proof/EndpointsLemmas.v, Proof/EndpointsTotal.v,
   Proof/EndpointsAux.v; model Model/Endpoints.v (scripted drivers: every driver call consumes one behaviour event
   Give k | Zero | Intr | Again | Fail e; behind the script the driver delivers what is asked until the stream ends).
   Proved for EVERY source script and EVERY sink script, octet- and chunk-style drivers on both sides: the get/put sides and their at-most
   variants incl. termination of the retry loops; the per-octet, counted and draining source-to-sink plumbing without and with an auxiliary
   buffer (what reached the sink is a prefix of the stream, a success moved exactly the requested octets in order, the calls return;
   at most the one octet - or the one scratch-buffer load - in flight is lost when the sink fails). *)'''
IMPORTS = '''From Ufw Require Import Base.Bits Base.Errno Model.Endpoints Proof.EndpointsLemmas Proof.EndpointsTotal Proof.EndpointsAux Model.ByteBuffer Model.BufEndpoints Proof.BufEndpointsLemmas.
From Coq Require Import Lia.
Local Open Scope N_scope.'''
ITEMS = [
 ('C17_get', 'get_chunk_exact', 'reading N octets: what is delivered followed by what the driver still holds is the original stream (no loss, duplication, reordering); success = exactly the next N octets; EINTR/EAGAIN never surface'),
 ('C17_get_terminates', 'get_chunk_total', '... and it always returns, whatever the driver does'),
 ('C17_get_invalid', 'get_chunk_invalid', 'N = 0 or N > SSIZE_MAX is refused without a driver call'),
 ('C17_get_atmost', 'get_chunk_atmost_bound', 'the at-most variant never delivers more than asked and reports the count delivered'),
 ('C17_put', 'put_chunk_exact', 'writing N octets: what reached the sink is a prefix of the data; success = all N, in order'),
 ('C17_put_terminates', 'put_chunk_total', '... and it always returns'),
 ('C17_put_invalid', 'put_chunk_invalid', 'N = 0 or N > SSIZE_MAX is refused'),
 ('C17_put_atmost', 'once_put_spec', 'the at-most variant'),
 ('C17_atmost_terminate', 'once_get_total', 'the at-most variants return'),
 ('C17_atmost_put_terminates', 'once_put_total', ''),
 ('C17_plumbing_counted', 'sts_n_spec', 'source-to-sink, counted: exactly the next n octets reach the sink in order, or an error is returned and what reached the sink is a prefix of the stream (at most the one octet in flight is lost)'),
 ('C17_plumbing_counted_terminates', 'sts_n_total', ''),
 ('C17_plumbing_drain', 'sts_drain_spec', 'source-to-sink, draining: everything up to the point where source or sink ended it reached the sink, in order'),
 ('C17_plumbing_drain_terminates', 'sts_drain_total', ''),
 ('C17_plumbing_one_octet', 'sts_cbc_spec', 'one octet through: zero-length answers of either driver are repeated, never forwarded or counted'),
 ('C17_plumbing_fixed_count', 'sts_n_cbc_spec', 'the fixed-count per-octet loop'),
 ('C17_aux_round', 'sts_some_aux_spec', 'one round through the auxiliary buffer: what was read is written to the start of the scratch image only, and all of it is pushed'),
 ('C17_aux_round_terminates', 'sts_some_aux_total', ''),
 ('C17_aux_counted', 'sts_n_aux_spec', 'counted, through the auxiliary buffer: exactly the next n octets in order, or an error with a prefix in the sink'),
 ('C17_aux_counted_terminates', 'sts_n_aux_total', ''),
 ('C17_aux_drain', 'sts_drain_aux_spec', 'draining through the auxiliary buffer'),
 ('C17_aux_drain_terminates', 'sts_drain_aux_total', ''),
 ('C17_buffer_source', 'buffer_get_chunk_spec', "the library's own drivers (endpoints/buffer.c), a byte buffer as source: reading N octets delivers exactly the next N unread octets and advances the read position by N; with fewer than N unread it delivers them all and reports end of data"),
 ('C17_buffer_source_invalid', 'buffer_get_chunk_invalid', ''),
 ('C17_chunk_list_source', 'chunks_get_chunk_spec', 'a chunk list as source: the unread octets of the chunks from the active one on, in order, across chunk borders and exhausted chunks'),
 ('C17_buffer_to_buffer', 'buf_sts_n_spec', 'counted move from a buffer source into a buffer sink (per octet, no extension): with enough unread octets and enough room exactly the next n octets are appended, in order'),
 ('C17_buffer_sink', 'buffer_put_chunk_spec', 'a byte buffer as sink: N octets are appended exactly, or the call is refused with ENOMEM and the buffer is unchanged'),
]
EXTRA = '''
(* non-vacuity: a chunk driver that gives 2, then nothing, is interrupted, then gives the rest; a counted transfer into a sink that takes
   nothing at first and fails at the third octet; a counted transfer through a 2-octet scratch buffer *)
Example C17_example :
  source_get_chunk {| s_octet := false; s_stream := [1;2;3;4;5;6]; s_script := [Give 2; Zero; Intr; Give 1]; s_calls := 0 |} 5
  = Some (DOk 5, [1;2;3;4;5],
          {| s_octet := false; s_stream := [6]; s_script := []; s_calls := 5 |}).
Proof. vm_compute. reflexivity. Qed.
Example C17_plumbing_example :
  let k := {| k_octet := true; k_got := []; k_script := [Zero; Give 1; Zero; Give 1; Fail EIO]; k_calls := 0 |} in
  match sts_n (src_plain false [1;2;3;4;5]) k 4 with
  | Some (r, s', k') => (r, s_stream s', k_got k') = (DErr EIO, [4;5], [1;2])
  | None => False
  end.
Proof. vm_compute. reflexivity. Qed.
Example C17_aux_example :
  match sts_n_aux (src_plain true [1;2;3;4;5]) (snk_plain false) [0;0] 5 with
  | Some (r, s', k', aux') => (r, s_stream s', k_got k', aux') = (DOk 5, [], [1;2;3;4;5], [5;4])
  | None => False
  end.
Proof. vm_compute. reflexivity. Qed.
'''
