#!/bin/sh
# Build /repo (working tree) WITHOUT the FT_UFW_VERIF guard in a scratch directory outside /repo and /verif,
# run the repository's test-suite and compare the passing test names with /root/.vp/BASELINE.json.
set -e
D=$(mktemp -d /tmp/ufw-baseline.XXXXXX)
trap 'rm -rf "$D"' EXIT
cmake -G Ninja -S /repo -B "$D/b" >"$D/configure.log" 2>&1 || { cat "$D/configure.log"; exit 2; }
cmake --build "$D/b" >"$D/build.log" 2>&1 || { tail -50 "$D/build.log"; exit 2; }
ctest --test-dir "$D/b" -j8 --timeout 900 -V >"$D/ctest.log" 2>&1 || true
python3 - "$D/ctest.log" <<'PY'
import json, re, sys
log = open(sys.argv[1], errors='replace').read()
passed = set()
for m in re.finditer(r'^(?:\d+: )?ok \d+ - (.*)$', log, flags=re.M):
    passed.add(m.group(1).strip())
base = json.load(open('/root/.vp/BASELINE.json'))['stable_pass']
want = set(n.split('::', 1)[1].strip() for n in base)
missing = sorted(want - passed)
print('baseline tests: %d, passing now: %d, missing: %d' % (len(want), len(want & passed), len(missing)))
for n in missing[:40]:
    print('MISSING: ' + n)
sys.exit(1 if missing else 0)
PY
