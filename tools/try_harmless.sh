#!/bin/sh
# tools/try_harmless.sh <name> <Cxx>... : apply a behaviour-preserving refactoring (harmless/<name>/patch.diff) to a scratch
# worktree of /repo and run the given quick checks against it (UFW_REPO); every check must exit 0 without a VIOLATION line.
N=$1; shift
W=/tmp/harmless-$N
git -C /repo worktree prune; rm -rf $W
git -C /repo worktree add -q --detach $W HEAD || exit 2
git -C $W apply /verif/harmless/$N/patch.diff || { echo "patch does not apply"; git -C /repo worktree remove --force $W; exit 2; }
cd /verif
for id in "$@"; do
  UFW_REPO=$W ./check $id --tier quick > .work/harmless_$id.log 2>&1; rc=$?
  echo "$N $id rc=$rc violations=$(grep -c '^VIOLATION' .work/harmless_$id.log)"
done
git -C /repo worktree remove --force $W
