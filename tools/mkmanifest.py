#!/usr/bin/env python3
"""Regenerate MANIFEST.json from props/*.py (claimed) and properties.jsonl (everything else -> not_applicable)."""
import json, os, sys, importlib, subprocess
V = os.path.dirname(os.path.dirname(os.path.abspath(__file__)))
sys.path.insert(0, os.path.join(V, 'props')); sys.path.insert(0, os.path.join(V, 'tools'))
props = [json.loads(l) for l in open(os.path.join(V, 'properties.jsonl'))]
checks = []; na = []
for p in props:
    pid = p['id']
    if os.path.exists(os.path.join(V, 'props', pid + '.py')):
        P = importlib.import_module(pid)
        checks.append({
            'property_id': pid,
            'quick_cmd': './check %s --tier quick' % pid,
            'thorough_cmd': './check %s --tier thorough' % pid,
            'evidence_file': 'evidence/%s.json' % pid,
            'replay_cmd_template': './check %s --replay {path}' % pid,
            'engine': 'coq+corr',
            'level_claimed': {'category': 'proof', 'text': P.LEVEL_TEXT, 'design_ref': 'DESIGN.md section 5 ' + pid},
            'level_note': P.LEVEL_NOTE,
            'technique': P.TECHNIQUE,
        })
    else:
        na.append({'property_id': pid, 'reason': 'not yet built in this round: model/theorems/tie for %s are planned in DESIGN.md section 5 but no check is registered yet (nothing about the property makes Coq proof inapplicable)' % pid})
hooks = json.load(open(os.path.join(V, 'tools', 'hooks.json'))) if os.path.exists(os.path.join(V, 'tools', 'hooks.json')) else {'source_commits': []}
m = {
    'version': 1,
    'setup_cmd': './setup.sh',
    'hooks': {'guard': 'FT_UFW_VERIF',
              'enable': 'the harness compiles /repo/src/**/*.c itself with -DFT_UFW_VERIF (tools/runner.py CFLAGS); no hook is needed so far: the harness reaches everything through the public API, its own callbacks, canaries and allocator',
              'baseline_off_cmd': 'tools/baseline_off.sh',
              'source_commits': hooks['source_commits'], 'add_only': True},
    'engines': [
        {'name': 'coq', 'path': 'coq/', 'serves_properties': [c['property_id'] for c in checks], 'kind_free_text': 'Coq 8.16.1 development: Model/ (executable Gallina), Proof/ (lemmas), Properties_Cxx.v (statements + Print Assumptions), Gen/ regenerated from /repo by tools/*2coq.py on every check'},
        {'name': 'corr', 'path': 'harness/ ocaml/ tools/runner.py', 'serves_properties': [c['property_id'] for c in checks], 'kind_free_text': 'correspondence: extracted OCaml model vs ASan/UBSan build of /repo working tree on generated cases; shrinker; known-findings matcher'},
    ],
    'checks': checks,
    'not_applicable': na,
    'notes': 'Technique: machine-checked proof in Coq 8.16.1 of theorems about executable models, tied to /repo on every run by translators (tools/*2coq.py) and by a correspondence run (extracted model vs sanitizer build of the working tree).  See DESIGN.md.',
}
json.dump(m, open(os.path.join(V, 'MANIFEST.json'), 'w'), indent=1)
print('claimed:', [c['property_id'] for c in checks])
