#!/usr/bin/env python3
"""tools/mkmeta.py <name> <property> <breaks> <needs> [note]: write seeded/<name>/meta.json from the confirm / try logs."""
import sys, json, os, re
name, pid, breaks, needs = sys.argv[1:5]
note = sys.argv[5] if len(sys.argv) > 5 else ''
d = '/verif/seeded/' + name
conf = open(d + '/.confirm.txt').read().strip().replace('\n', '; ')
tr = open(d + '/.try.txt').read()
m = re.search(r'^# %s quick:.*$' % pid, tr, flags=re.M)
viol = 'VIOLATION' in tr
meta = {'property': pid, 'breaks': breaks, 'needs_to_manifest': needs,
        'confirmed': 'tools/confirm_seed.sh in a scratch worktree of /repo HEAD: ' + conf,
        'check_result': './check %s -> %s (%s)' % (pid, 'VIOLATION' if viol else 'not detected', m.group(0)[2:] if m else ''),
        'origin': 'independent sub-agent (third round: asked for a change of a different kind than the earlier ones) given only the property text and a scratch worktree'}
if note:
    meta['note'] = note
json.dump(meta, open(d + '/meta.json', 'w'), indent=1)
print(json.dumps(meta, indent=1))
