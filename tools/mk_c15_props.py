#!/usr/bin/env python3
"""One-off generator of coq/Properties_C15.v from the fixed naming scheme of binary-format.h
(widths x orders x kinds).  The output is committed; it does not read the header."""
W = [16, 24, 32, 40, 48, 56, 64]
def T(w): return 16 if w == 16 else 32 if w <= 32 else 64
out = ['''(* C15  Endian codecs place and fetch every value byte-exactly.
   Statements only.  The functions are those of Gen/BfGen_{LB,LM,BM}.v, re-translated from
   include/ufw/binary-format.h on every run (tools/bf2coq.py) for three configurations:
     LB little-endian host, __builtin_bswap (the build's configuration)
     LM little-endian host, mask-and-shift swaps        BM big-endian host, mask-and-shift swaps
   and the proofs are the regenerated Gen/BfProofs_<cfg>.v.  Vocabulary (Model/BinFmt.v): rd mem pos k = the
   k octets at pos; wr mem pos xs = mem with xs stored at pos; lebZ/bebZ k v = the k low octets of v, least /
   most significant first; oflZ/ofbZ their inverses; sextZ w = two's complement reading of w bits. *)
From Ufw Require Import Base.Bits Base.Cexpr Model.BinFmt Proof.BinFmtLemmas.
From Ufw Require Gen.BfGen_LB Gen.BfGen_LM Gen.BfGen_BM Gen.BfProofs_LB Gen.BfProofs_LM Gen.BfProofs_BM.
From Coq Require Import ZArith.
Local Open Scope Z_scope.

(* ---- what the vocabulary means: storing changes exactly the k octets, loading them back gives the value ---- *)
Theorem C15_wr_frame : forall xs mem pos i, (i < pos \\/ pos + List.length xs <= i)%nat -> nth i (wr mem pos xs) 0 = nth i mem 0.
Proof. exact wr_frame. Qed.
Print Assumptions C15_wr_frame.
Theorem C15_wr_length : forall mem pos xs, List.length (wr mem pos xs) = List.length mem.
Proof. exact wr_length. Qed.
Print Assumptions C15_wr_length.
Theorem C15_rd_wr : forall mem pos xs, (pos + List.length xs <= List.length mem)%nat -> rd (wr mem pos xs) pos (List.length xs) = xs.
Proof. exact rd_wr. Qed.
Print Assumptions C15_rd_wr.
Theorem C15_le_roundtrip : forall k v, oflZ (lebZ k v) = v mod 256 ^ Z.of_nat k.
Proof. exact oflZ_lebZ. Qed.
Print Assumptions C15_le_roundtrip.
Theorem C15_be_roundtrip : forall k v, ofbZ (bebZ k v) = v mod 256 ^ Z.of_nat k.
Proof. exact ofbZ_bebZ. Qed.
Print Assumptions C15_be_roundtrip.
Theorem C15_signed_roundtrip : forall w v, 0 < w -> - 2 ^ (w - 1) <= v < 2 ^ (w - 1) -> sextZ w (v mod 2 ^ w) = v.
Proof. exact sext_mod. Qed.
Print Assumptions C15_signed_roundtrip.
Theorem C15_swap_involutive : forall k v, 0 <= v < 256 ^ Z.of_nat k -> bswap k (bswap k v) = v.
Proof. exact bswap_involutive. Qed.
Print Assumptions C15_swap_involutive.
Theorem C15_swap_range : forall k v, 0 <= bswap k v < 256 ^ Z.of_nat k.
Proof. exact bswap_range. Qed.
Print Assumptions C15_swap_range.
Theorem C15_swap_reverses : forall k v, lebZ k (bswap k v) = rev (lebZ k v).
Proof. exact lebZ_bswap. Qed.
Print Assumptions C15_swap_reverses.
''']
for cfg in ('LB', 'LM', 'BM'):
    G = 'BfGen_%s' % cfg; P = 'BfProofs_%s' % cfg
    nat_of = 'ofbZ' if cfg == 'BM' else 'oflZ'
    nat_bytes = 'bebZ' if cfg == 'BM' else 'lebZ'
    def conj(items): return ' /\\\n  '.join('(%s)' % i for i in items)
    def proof(lemmas):
        t = '%s.%s' % (P, lemmas[-1])
        for l in reversed(lemmas[:-1]):
            t = '(conj %s.%s %s)' % (P, l, t)
        return 'Proof. exact %s. Qed.' % t
    out.append('(* ======================= configuration %s ======================= *)' % cfg)
    # swaps
    st = ['forall v, 0 <= v < %d -> %s.bf_swap%d v = bswap %d v' % (2 ** T(w), G, w, w // 8) for w in W]
    out.append('Theorem C15_%s_swap :\n  %s.\n%s\nPrint Assumptions C15_%s_swap.\n' % (cfg, conj(st), proof(['swap%d_ok' % w for w in W]), cfg))
    # unsigned refs
    st = []; lm = []
    for w in W:
        k = w // 8
        st.append('forall mem pos, %s.bf_ref_u%dn mem pos = from_host %s.big (rd mem pos %d)' % (G, w, G, k)); lm.append('ref_u%dn_ok' % w)
        st.append('forall mem pos, octetsZ mem -> %s.bf_ref_u%db mem pos = ofbZ (rd mem pos %d)' % (G, w, k)); lm.append('ref_u%db_ok' % w)
        st.append('forall mem pos, octetsZ mem -> %s.bf_ref_u%dl mem pos = oflZ (rd mem pos %d)' % (G, w, k)); lm.append('ref_u%dl_ok' % w)
    out.append('Theorem C15_%s_ref_unsigned :\n  %s.\n%s\nPrint Assumptions C15_%s_ref_unsigned.\n' % (cfg, conj(st), proof(lm), cfg))
    st = []; lm = []
    for w in W:
        k = w // 8
        st.append('forall mem pos v, %s.bf_set_u%dn mem pos v = (wr mem pos (host_bytes %s.big %d v), (pos + %d)%%nat)' % (G, w, G, k, k)); lm.append('set_u%dn_ok' % w)
        st.append('forall mem pos v, 0 <= v < %d -> %s.bf_set_u%db mem pos v = (wr mem pos (bebZ %d v), (pos + %d)%%nat)' % (2 ** T(w), G, w, k, k)); lm.append('set_u%db_ok' % w)
        st.append('forall mem pos v, 0 <= v < %d -> %s.bf_set_u%dl mem pos v = (wr mem pos (lebZ %d v), (pos + %d)%%nat)' % (2 ** T(w), G, w, k, k)); lm.append('set_u%dl_ok' % w)
    out.append('Theorem C15_%s_set_unsigned :\n  %s.\n%s\nPrint Assumptions C15_%s_set_unsigned.\n' % (cfg, conj(st), proof(lm), cfg))
    st = []; lm = []
    for w in W:
        for od in 'nbl':
            st.append('forall mem pos, octetsZ mem -> %s.bf_ref_s%d%s mem pos = sextZ %d (%s.bf_ref_u%d%s mem pos)' % (G, w, od, w, G, w, od)); lm.append('ref_s%d%s_ok' % (w, od))
    out.append('Theorem C15_%s_ref_signed :\n  %s.\n%s\nPrint Assumptions C15_%s_ref_signed.\n' % (cfg, conj(st), proof(lm), cfg))
    st = []; lm = []
    for w in W:
        for od in 'nbl':
            st.append('forall mem pos v, %s.bf_set_s%d%s mem pos v = %s.bf_set_u%d%s mem pos (v mod %d)' % (G, w, od, G, w, od, 2 ** T(w))); lm.append('set_s%d%s_ok' % (w, od))
    out.append('Theorem C15_%s_set_signed :\n  %s.\n%s\nPrint Assumptions C15_%s_set_signed.\n' % (cfg, conj(st), proof(lm), cfg))
    st = []; lm = []
    for w in (32, 64):
        for od in 'nbl':
            st.append('forall mem pos, %s.bf_ref_f%d%s mem pos = %s.bf_ref_u%d%s mem pos' % (G, w, od, G, w, od)); lm.append('ref_f%d%s_ok' % (w, od))
            st.append('forall mem pos v, %s.bf_set_f%d%s mem pos v = %s.bf_set_u%d%s mem pos v' % (G, w, od, G, w, od)); lm.append('set_f%d%s_ok' % (w, od))
    out.append('(* floats are carried as their bit patterns: bit-identical, NaN payloads included *)\nTheorem C15_%s_float :\n  %s.\n%s\nPrint Assumptions C15_%s_float.\n' % (cfg, conj(st), proof(lm), cfg))
    st = []; lm = []
    for w in (24, 40, 48, 56):
        t = T(w)
        st.append('forall v, 0 <= v < %d -> %s.bf_inrange_u%d v = if v <? %d then 1 else 0' % (2 ** t, G, w, 2 ** w)); lm.append('inrange_u%d_ok' % w)
        st.append('forall v, %d <= v < %d -> %s.bf_inrange_s%d v = if (%d <=? v) && (v <? %d) then 1 else 0' % (-2 ** (t - 1), 2 ** (t - 1), G, w, -2 ** (w - 1), 2 ** (w - 1))); lm.append('inrange_s%d_ok' % w)
    out.append('Theorem C15_%s_inrange :\n  %s.\n%s\nPrint Assumptions C15_%s_inrange.\n' % (cfg, conj(st), proof(lm), cfg))
out.append('''(* non-vacuity *)
Example C15_example :
  BfGen_LM.bf_set_u24b [9; 9; 9; 9; 9] 1 0x123456 = ([9; 0x12; 0x34; 0x56; 9], 4%nat) /\\
  BfGen_BM.bf_ref_s24l [0xfe; 0xff; 0xff] 0 = -2 /\\ BfGen_LB.bf_swap64 0x0102030405060708 = 0x0807060504030201.
Proof. repeat split; vm_compute; reflexivity. Qed.
''')
open('/verif/coq/Properties_C15.v', 'w').write('\n'.join(out))
