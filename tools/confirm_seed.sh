#!/bin/sh
# tools/confirm_seed.sh <name> <patch.diff> <demo.c> : in a scratch worktree of /repo HEAD confirm that the change
# compiles, the test-suite still passes with it, and the demo passes without / fails with the change.
N=$1; P=$2; D=$3
W=/tmp/confirm-$N
rm -rf $W /tmp/confirm-build-$N; git -C /repo worktree prune
git -C /repo worktree add -q --detach $W HEAD || exit 2
SRCS="$(ls $W/src/*.c $W/src/endpoints/*.c $W/src/registers/*.c $W/src/compat/*.c | grep -v posix)"
CC="gcc -std=gnu99 -D_DEFAULT_SOURCE -DSYSTEM_ENDIANNESS_LITTLE -DUFW_USE_BUILTIN_SWAP -I$W/include -I/verif/harness/include -w $CONFIRM_EXTRA"
$CC $D $SRCS -lm -o /tmp/confirm-demo-$N-orig || { echo "demo does not compile (orig)"; }
/tmp/confirm-demo-$N-orig > /tmp/confirm-$N-orig.out 2>&1; echo "demo without change: exit $? ($(tail -1 /tmp/confirm-$N-orig.out | cut -c1-80))"
git -C $W apply $P || { echo "patch does not apply"; git -C /repo worktree remove --force $W; exit 2; }
$CC $D $SRCS -lm -o /tmp/confirm-demo-$N-mut || echo "demo does not compile (mutant)"
/tmp/confirm-demo-$N-mut > /tmp/confirm-$N-mut.out 2>&1; echo "demo with change: exit $? ($(tail -1 /tmp/confirm-$N-mut.out | cut -c1-80))"
cmake -G Ninja -S $W -B /tmp/confirm-build-$N >/dev/null 2>&1 && cmake --build /tmp/confirm-build-$N >/dev/null 2>&1 || echo "BUILD FAILED"
ctest --test-dir /tmp/confirm-build-$N -j8 --timeout 900 -V > /tmp/confirm-$N-ctest.log 2>&1
python3 - /tmp/confirm-$N-ctest.log <<'PY'
import json, re, sys
log = open(sys.argv[1], errors='replace').read()
passed = set(m.group(1).strip() for m in re.finditer(r'^(?:\d+: )?ok \d+ - (.*)$', log, flags=re.M))
want = set(n.split('::', 1)[1].strip() for n in json.load(open('/root/.vp/BASELINE.json'))['stable_pass'])
print('test-suite with change: %d/%d baseline tests pass' % (len(want & passed), len(want)))
PY
git -C /repo worktree remove --force $W; rm -rf /tmp/confirm-build-$N /tmp/confirm-demo-$N-* /tmp/confirm-$N-*.out /tmp/confirm-$N-ctest.log
