#!/bin/sh
# tools/take_seed2.sh <Cxx> : second seeded change of a property: /tmp/wt-<Cxx>b -> seeded/<Cxx>b/, confirm, try, clean up.
ID=$1; W=/tmp/wt-${ID}b; D=/verif/seeded/${ID}b
mkdir -p $D
cp $W/patch.diff $D/patch.diff && cp $W/demo.c $D/demo.c && cp $W/meta.txt $D/agent-notes.txt || exit 2
git -C /repo worktree remove --force $W
rm -rf /tmp/build-${ID}b /tmp/demo-${ID}b
/verif/tools/confirm_seed.sh ${ID}b $D/patch.diff $D/demo.c 2>&1 | tee $D/.confirm.txt
/verif/tools/try_seed.sh $D/patch.diff $ID 2>&1 | tee $D/.try.txt
