"""clang JSON AST -> Coq Cexpr translation helpers (shared by the translators).

Only loop-free integer expressions are accepted; anything else raises
Untranslatable (a broken tie, reported by the check, never skipped)."""
import json, subprocess, sys, os

REPO = os.environ.get('UFW_REPO', '/repo')
VERIF = os.path.dirname(os.path.dirname(os.path.abspath(__file__)))
CFLAGS = ['-std=gnu99', '-DSYSTEM_ENDIANNESS_LITTLE', '-DUFW_USE_BUILTIN_SWAP',
          '-I' + REPO + '/include', '-I' + VERIF + '/harness/include']

class Untranslatable(Exception):
    pass

def clang_ast(path, flt, extra=()):
    cmd = ['clang', '-fsyntax-only'] + CFLAGS + list(extra) + [
        '-Xclang', '-ast-dump=json', '-Xclang', '-ast-dump-filter=' + flt, path]
    p = subprocess.run(cmd, capture_output=True, text=True)
    if p.returncode != 0:
        raise Untranslatable('clang failed: ' + p.stderr[:2000])
    s = p.stdout
    dec = json.JSONDecoder(); i = 0; objs = []
    while i < len(s):
        while i < len(s) and s[i] in ' \n\r\t':
            i += 1
        if i >= len(s):
            break
        o, j = dec.raw_decode(s, i); objs.append(o); i = j
    return objs

# LP64 data model (checked against harness/probe at build time)
TYPES = {
    'unsigned char': (False, 8), 'signed char': (True, 8), 'char': (True, 8),
    'unsigned short': (False, 16), 'short': (True, 16),
    'unsigned int': (False, 32), 'int': (True, 32),
    'unsigned long': (False, 64), 'long': (True, 64),
    'unsigned long long': (False, 64), 'long long': (True, 64),
    '_Bool': (False, 8), 'bool': (False, 8),
    'uint8_t': (False, 8), 'uint16_t': (False, 16), 'uint32_t': (False, 32), 'uint64_t': (False, 64),
    'int8_t': (True, 8), 'int16_t': (True, 16), 'int32_t': (True, 32), 'int64_t': (True, 64),
    'uint_least8_t': (False, 8), 'size_t': (False, 64), 'ssize_t': (True, 64),
    'uintptr_t': (False, 64),
}

def ctype(node):
    t = node.get('type', {})
    for k in ('desugaredQualType', 'qualType'):
        q = t.get(k)
        if q is None:
            continue
        q = q.replace('const ', '').replace('volatile ', '').strip()
        if q in TYPES:
            return TYPES[q]
    raise Untranslatable('unsupported type %r' % t)

def coq_ty(t):
    return '(Ity %s %d)' % ('true' if t[0] else 'false', t[1])

BINOPS = {'&': 'Oand', '|': 'Oor', '^': 'Oxor', '<<': 'Oshl', '>>': 'Oshr', '+': 'Oadd',
          '-': 'Osub', '*': 'Omul', '/': 'Odiv', '%': 'Orem', '==': 'Oeq', '!=': 'One',
          '<': 'Olt', '>': 'Ogt', '<=': 'Ole', '>=': 'Oge', '&&': 'Oland', '||': 'Olor'}
UNOPS = {'~': 'Onot', '-': 'Oneg', '!': 'Olnot'}

def expr(n, tables=(), env=None, leaf=None):
    """env: local variable name -> already translated expression (locals are substituted);
    leaf: hook tried first on every node (returns a translation or None)"""
    if leaf is not None:
        r = leaf(n)
        if r is not None:
            return r
    k = n['kind']
    inner = n.get('inner', [])
    if k == 'DeclRefExpr' and env is not None and n['referencedDecl']['name'] in env:
        return env[n['referencedDecl']['name']]
    if k in ('ParenExpr', 'ConstantExpr'):
        return expr(inner[0], tables, env, leaf)
    if k == 'ImplicitCastExpr' or k == 'CStyleCastExpr':
        ck = n.get('castKind')
        if ck in ('LValueToRValue', 'NoOp'):
            return expr(inner[0], tables, env, leaf)
        if ck == 'IntegralCast' or ck == 'IntegralToBoolean':
            return '(Cast %s %s)' % (coq_ty(ctype(n)), expr(inner[0], tables, env, leaf))
        raise Untranslatable('cast kind %s' % ck)
    if k == 'DeclRefExpr':
        return '(Var "%s")' % n['referencedDecl']['name']
    if k == 'IntegerLiteral':
        return '(Lit %s)' % n['value']
    if k == 'CharacterLiteral':
        return '(Lit %s)' % n['value']
    if k == 'BinaryOperator':
        op = n['opcode']
        if op not in BINOPS:
            raise Untranslatable('binary operator ' + op)
        return '(Bin %s %s %s %s)' % (BINOPS[op], coq_ty(ctype(n)), expr(inner[0], tables, env, leaf), expr(inner[1], tables, env, leaf))
    if k == 'UnaryOperator':
        op = n['opcode']
        if op not in UNOPS:
            raise Untranslatable('unary operator ' + op)
        return '(Un %s %s %s)' % (UNOPS[op], coq_ty(ctype(n)), expr(inner[0], tables, env, leaf))
    if k == 'ArraySubscriptExpr':
        base = inner[0]
        while base['kind'] in ('ImplicitCastExpr', 'ParenExpr'):
            base = base['inner'][0]
        if base['kind'] != 'DeclRefExpr':
            raise Untranslatable('subscript base')
        return '(Idx "%s" %s)' % (base['referencedDecl']['name'], expr(inner[1], tables, env, leaf))
    if k == 'ConditionalOperator':
        return '(Cond %s %s %s)' % tuple(expr(x, tables, env, leaf) for x in inner)
    if k == 'UnaryExprOrTypeTraitExpr' and n.get('name') == 'sizeof':
        at = n.get('argType')
        if at:
            q = at.get('desugaredQualType', at['qualType'])
            if q in TYPES:
                return '(Lit %d)' % (TYPES[q][1] // 8)
        raise Untranslatable('sizeof')
    raise Untranslatable('expression kind ' + k)

def find(n, kind, name=None):
    if n.get('kind') == kind and (name is None or n.get('name') == name):
        return n
    for c in n.get('inner', []):
        r = find(c, kind, name)
        if r is not None:
            return r
    return None

def single_return(fn):
    body = [c for c in fn.get('inner', []) if c['kind'] == 'CompoundStmt']
    if len(body) != 1:
        raise Untranslatable('no body')
    st = body[0].get('inner', [])
    if len(st) != 1 or st[0]['kind'] != 'ReturnStmt':
        raise Untranslatable('body is not a single return')
    return st[0]['inner'][0]

def body_expr(fn, env=None, leaf=None):
    """function body of the shape { initialised local declarations }* return e: e with the locals substituted
    (the initialiser's implicit conversion to the declared type is part of the AST)"""
    body = [c for c in fn.get('inner', []) if c['kind'] == 'CompoundStmt']
    if len(body) != 1:
        raise Untranslatable('no body')
    st = body[0].get('inner', [])
    env = dict(env or {})
    if not st or st[-1]['kind'] != 'ReturnStmt':
        raise Untranslatable('body does not end in a return')
    for d in st[:-1]:
        if d['kind'] != 'DeclStmt':
            raise Untranslatable('statement %s before the return' % d['kind'])
        for v in d.get('inner', []):
            if v['kind'] != 'VarDecl' or not v.get('inner'):
                raise Untranslatable('local without initialiser')
            init = v['inner'][-1]
            t = ctype(v)
            env[v['name']] = '(Cast %s %s)' % (coq_ty(t), expr(init, (), env, leaf))
    return st[-1]['inner'][0], env

def callee_name(call):
    c = call['inner'][0]
    while c['kind'] in ('ImplicitCastExpr', 'ParenExpr'):
        c = c['inner'][0]
    return c['referencedDecl']['name'] if c['kind'] == 'DeclRefExpr' else None

def strip_casts(n):
    while n['kind'] in ('ImplicitCastExpr', 'ParenExpr', 'CStyleCastExpr'):
        n = n['inner'][0]
    return n

def params(fn):
    return [(c['name'], ctype(c)) for c in fn.get('inner', []) if c['kind'] == 'ParmVarDecl']

def table_values(var):
    init = find(var, 'InitListExpr')
    if init is None:
        raise Untranslatable('table without initialiser')
    vals = []
    for e in init.get('inner', []):
        x = e
        while x['kind'] in ('ImplicitCastExpr', 'ParenExpr', 'ConstantExpr'):
            x = x['inner'][0]
        if x['kind'] != 'IntegerLiteral':
            raise Untranslatable('table element ' + x['kind'])
        vals.append(int(x['value']))
    return vals
