#!/bin/sh
# tools/take_seed.sh <Cxx> : store the sub-agent's deliverables from /tmp/wt-<Cxx> under seeded/<Cxx>/, confirm them in a
# scratch worktree, run the check against the change, remove the agent's worktree.
ID=$1; W=/tmp/wt-$ID; D=/verif/seeded/$ID
mkdir -p $D
cp $W/patch.diff $D/patch.diff && cp $W/demo.c $D/demo.c && cp $W/meta.txt $D/agent-notes.txt || exit 2
git -C /repo worktree remove --force $W
rm -rf /tmp/build-$ID /tmp/demo-$ID
/verif/tools/confirm_seed.sh $ID $D/patch.diff $D/demo.c 2>&1 | tee $D/.confirm.txt
/verif/tools/try_seed.sh $D/patch.diff $ID 2>&1 | tee $D/.try.txt
