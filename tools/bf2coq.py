#!/usr/bin/env python3
"""Translate every function of include/ufw/binary-format.h into Coq (Gen/BfGen_<cfg>.v), for three
configurations: LB little-endian + __builtin_bswap (what the build uses), LM little-endian + mask/shift
swaps, BM big-endian + mask/shift swaps.  The translation is purely syntactic over clang's typed AST;
a function body outside the recognised shapes makes the translator fail loudly."""
import sys, os

def write_if_changed(path, text):
    """keep the mtime when nothing changed, so that make does not rebuild the cone"""
    try:
        if open(path).read() == text:
            return
    except OSError:
        pass
    with open(path, 'w') as f:
        f.write(text)
sys.path.insert(0, os.path.dirname(os.path.abspath(__file__)))
from cast import *

CONFIGS = {
    'LB': ['-DSYSTEM_ENDIANNESS_LITTLE', '-DUFW_USE_BUILTIN_SWAP'],
    'LM': ['-DSYSTEM_ENDIANNESS_LITTLE', '-UUFW_USE_BUILTIN_SWAP'],
    'BM': ['-DSYSTEM_ENDIANNESS_BIG', '-UUFW_USE_BUILTIN_SWAP'],
}

def strip(n):
    while n['kind'] in ('ParenExpr', 'ImplicitCastExpr', 'ConstantExpr') or \
            (n['kind'] == 'CStyleCastExpr' and n.get('castKind') in ('BitCast', 'NoOp')):
        if n['kind'] == 'ImplicitCastExpr' and n.get('castKind') not in ('LValueToRValue', 'NoOp', 'BitCast', 'FunctionToPointerDecay', 'BuiltinFnToFnPtr'):
            break
        n = n['inner'][0]
    return n

def sizeof_type(q):
    q = q.replace('const ', '').strip()
    if q in TYPES:
        return TYPES[q][1] // 8
    raise Untranslatable('sizeof ' + q)

class Fn:
    def __init__(self, node):
        self.node = node
        self.name = node['name']
        self.params = [c for c in node.get('inner', []) if c['kind'] == 'ParmVarDecl']
        body = [c for c in node.get('inner', []) if c['kind'] == 'CompoundStmt']
        if len(body) != 1:
            raise Untranslatable(self.name + ': no body')
        self.stmts = body[0].get('inner', [])

def xexpr(n, member_vars):
    """expression translation with union members as variables data.<field>"""
    k = n['kind']
    if k == 'MemberExpr':
        base = strip(n['inner'][0])
        return '(Var "%s.%s")' % (base['referencedDecl']['name'], n['name'])
    inner = n.get('inner', [])
    if k in ('ParenExpr', 'ConstantExpr'):
        return xexpr(inner[0], member_vars)
    if k in ('ImplicitCastExpr', 'CStyleCastExpr'):
        ck = n.get('castKind')
        if ck in ('LValueToRValue', 'NoOp'):
            return xexpr(inner[0], member_vars)
        if ck in ('IntegralCast', 'IntegralToBoolean'):
            return '(Cast %s %s)' % (coq_ty(ctype(n)), xexpr(inner[0], member_vars))
        raise Untranslatable('cast kind %s' % ck)
    if k == 'BinaryOperator':
        op = n['opcode']
        if op not in BINOPS:
            raise Untranslatable('binary operator ' + op)
        return '(Bin %s %s %s %s)' % (BINOPS[op], coq_ty(ctype(n)), xexpr(inner[0], member_vars), xexpr(inner[1], member_vars))
    if k == 'UnaryOperator':
        op = n['opcode']
        if op not in UNOPS:
            raise Untranslatable('unary operator ' + op)
        return '(Un %s %s %s)' % (UNOPS[op], coq_ty(ctype(n)), xexpr(inner[0], member_vars))
    if k == 'UnaryExprOrTypeTraitExpr' and n.get('name') == 'sizeof':
        at = n.get('argType')
        if at:
            return '(Lit %d)' % sizeof_type(at.get('desugaredQualType', at['qualType']))
        raise Untranslatable('sizeof expr')
    return expr(n)

def call_parts(n):
    """CallExpr -> (callee name, [arg nodes])"""
    n = strip(n)
    if n['kind'] != 'CallExpr':
        return None
    callee = strip(n['inner'][0])
    if callee['kind'] != 'DeclRefExpr':
        raise Untranslatable('indirect call')
    return callee['referencedDecl']['name'], n['inner'][1:]

def tr_value_arg(n, fn):
    """argument expression of integer kind: param, union member, or a call of a swap"""
    s = strip(n)
    if s['kind'] == 'DeclRefExpr':
        return s['referencedDecl']['name']
    if s['kind'] == 'MemberExpr':
        return None  # handled by caller
    cp = call_parts(n)
    if cp:
        name, args = cp
        if name.startswith('__builtin_bswap'):
            bits = int(name[len('__builtin_bswap'):])
            return '(bswap %d %s)' % (bits // 8, tr_value_arg(args[0], fn))
        return '(%s %s)' % (name, tr_value_arg(args[0], fn))
    raise Untranslatable(fn.name + ': value argument ' + s['kind'])

def is_ptr_param(n):
    s = strip(n)
    return s['kind'] == 'DeclRefExpr' and s['referencedDecl']['name'] == 'ptr'

def tr_ref_call(n, fn):
    """integer-valued expression built from calls on ptr: f(g(ptr)) / g(ptr)"""
    cp = call_parts(n)
    if not cp:
        raise Untranslatable(fn.name + ': expected a call')
    name, args = cp
    if len(args) == 1 and is_ptr_param(args[0]):
        return '(%s mem pos)' % name
    if len(args) == 1:
        inner = tr_ref_call(args[0], fn)
        if name.startswith('__builtin_bswap'):
            return '(bswap %d %s)' % (int(name[len('__builtin_bswap'):]) // 8, inner)
        return '(%s %s)' % (name, inner)
    raise Untranslatable(fn.name + ': call shape')

def moves(stmts, fn):
    out = []
    for s in stmts:
        if s['kind'] != 'BinaryOperator' or s.get('opcode') != '=':
            raise Untranslatable(fn.name + ': expected dst[i] = src[j]')
        l, r = strip(s['inner'][0]), strip(s['inner'][1])
        if l['kind'] != 'ArraySubscriptExpr' or r['kind'] != 'ArraySubscriptExpr':
            raise Untranslatable(fn.name + ': expected subscripts')
        lb, li = strip(l['inner'][0]), strip(l['inner'][1])
        rb, ri = strip(r['inner'][0]), strip(r['inner'][1])
        if lb.get('referencedDecl', {}).get('name') != 'dst' or rb.get('referencedDecl', {}).get('name') != 'src':
            raise Untranslatable(fn.name + ': expected dst[..] = src[..]')
        if li['kind'] != 'IntegerLiteral' or ri['kind'] != 'IntegerLiteral':
            raise Untranslatable(fn.name + ': non-literal index')
        out.append((int(li['value']), int(ri['value'])))
    return out

def vardecl(stmt):
    if stmt['kind'] != 'DeclStmt' or len(stmt['inner']) != 1 or stmt['inner'][0]['kind'] != 'VarDecl':
        return None
    return stmt['inner'][0]

def width_of(node):
    return ctype(node)[1]

import re as _re
_SIG = _re.compile(r'^bf_(set|ref)_([usf])(\d+)([nlb])$')

def _plain(q):
    return q.replace('const ', '').replace('volatile ', '').strip()

def check_signature(fn):
    """The translation works on mathematical integers, so the conversion of an argument to the declared parameter type (and of
    the result to the declared return type) is invisible to it.  The specifications assume the container type that the function's
    name prescribes (16 -> 16 bits, 24/32 -> 32, 40..64 -> 64; u/s; float/double): a declaration that differs breaks the tie."""
    m = _SIG.match(fn.name)
    if not m:
        return
    kind, cls, bits = m.group(1), m.group(2), int(m.group(3))
    if kind == 'set':
        t = fn.params[1].get('type', {}) if len(fn.params) == 2 else {}
        cands = [_plain(t[k]) for k in ('qualType', 'desugaredQualType') if k in t]
    else:
        q = fn.node.get('type', {}).get('qualType', '')
        cands = [_plain(q.split('(')[0])]
    if cls == 'f':
        want = 'float' if bits == 32 else 'double'
        ok = want in cands
        wtxt = want
    else:
        cont = 16 if bits <= 16 else 32 if bits <= 32 else 64
        ok = any(c in TYPES and TYPES[c] == (cls == 's', cont) for c in cands)
        wtxt = '%s%d-bit integer' % ('signed ' if cls == 's' else 'unsigned ', cont)
    if not ok:
        raise Untranslatable('%s: %s type is %s, the specification assumes a %s' % (fn.name, 'value parameter' if kind == 'set' else 'return', '/'.join(cands) or '?', wtxt))

def translate(fn):
    check_signature(fn)
    st = fn.stmts
    pnames = [p['name'] for p in fn.params]
    # --- shape A / I: pure integer functions of 'value'
    if pnames == ['value']:
        lets = []
        body = None
        for s in st:
            v = vardecl(s)
            if v is not None:
                lets.append((v['name'], '(Cast %s %s)' % (coq_ty(ctype(v)), xexpr(v['inner'][0], ())) if v['inner'][0]['kind'] != 'ImplicitCastExpr' else xexpr(v['inner'][0], ())))
            elif s['kind'] == 'ReturnStmt':
                body = s['inner'][0]
            else:
                raise Untranslatable(fn.name + ': statement ' + s['kind'])
        cp = call_parts(body) if strip(body)['kind'] == 'CallExpr' else None
        if cp and cp[0].startswith('__builtin_bswap'):
            # the _body placeholder keeps the per-configuration proof scripts uniform; it is not used
            return 'Definition %s_body : expr := Var "value".  (* unused: compiler builtin *)\nDefinition %s (value : Z) : Z := bswap %d value.' % (
                fn.name, fn.name, int(cp[0][len('__builtin_bswap'):]) // 8)
        env = 'bind "value" value env0'
        txt = ''
        for name, e in lets:
            txt += 'let %s := eval (%s) notabs %s in\n  ' % ('v_' + name, env, e)
            env = 'bind "%s" v_%s (%s)' % (name, name, env)
        return 'Definition %s_body : expr := %s.\nDefinition %s (value : Z) : Z :=\n  %seval (%s) notabs %s_body.' % (
            fn.name, xexpr(body, ()), fn.name, txt, env, fn.name)
    # --- ref functions: parameter ptr
    if pnames == ['ptr']:
        decls = [vardecl(s) for s in st]
        # shape B: buffer / src / dst / moves / return buffer
        if len(st) >= 4 and decls[0] is not None and decls[0]['name'] == 'buffer':
            sz = width_of(decls[0]) // 8
            if decls[1]['name'] != 'src' or decls[2]['name'] != 'dst':
                raise Untranslatable(fn.name + ': expected src/dst')
            if not is_ptr_param(decls[1]['inner'][0]):
                raise Untranslatable(fn.name + ': src must be ptr')
            d = strip(decls[2]['inner'][0])
            if d['kind'] != 'UnaryOperator' or d.get('opcode') != '&' or strip(d['inner'][0])['referencedDecl']['name'] != 'buffer':
                raise Untranslatable(fn.name + ': dst must be &buffer')
            init = decls[0]['inner'][0]
            while init['kind'] in ('ImplicitCastExpr', 'ParenExpr'):
                init = init['inner'][0]
            if init['kind'] != 'IntegerLiteral' or int(init['value']) != 0:
                raise Untranslatable(fn.name + ': buffer must start as 0')
            mv = moves(st[3:-1], fn)
            r = strip(st[-1]['inner'][0])
            if st[-1]['kind'] != 'ReturnStmt' or r.get('referencedDecl', {}).get('name') != 'buffer':
                raise Untranslatable(fn.name + ': must return buffer')
            return 'Definition %s (mem : list Z) (pos : nat) : Z :=\n  moves_ref big %d [%s]%%nat mem pos.' % (
                fn.name, sz, '; '.join('(%d, %d)' % m for m in mv))
        # shape D/E: union data = { .u = call }; [if (cond) data.u |= mask;] return data.x
        if decls[0] is not None and decls[0]['name'] == 'data':
            init = decls[0]['inner'][0]
            if init['kind'] != 'InitListExpr':
                raise Untranslatable(fn.name + ': union init')
            field = init['field']['name']
            uw = width_of(init['inner'][0])
            val = tr_ref_call(init['inner'][0], fn)
            txt = 'let u := %s in\n  ' % val
            rest = st[1:]
            if rest and rest[0]['kind'] == 'IfStmt':
                cond = rest[0]['inner'][0]
                thenb = rest[0]['inner'][1]
                ts = thenb['inner'] if thenb['kind'] == 'CompoundStmt' else [thenb]
                if len(ts) != 1 or ts[0]['kind'] != 'CompoundAssignOperator' or ts[0]['opcode'] != '|=':
                    raise Untranslatable(fn.name + ': sign extension statement')
                lhs = strip(ts[0]['inner'][0])
                if lhs['kind'] != 'MemberExpr' or lhs['name'] != field:
                    raise Untranslatable(fn.name + ': sign extension target')
                ct = ts[0].get('computeResultType', {}).get('qualType', 'unsigned long')
                comp = TYPES.get(ct, (False, 64))
                txt += ('let u := if Z.eqb (eval (bind "data.%s" u env0) notabs %s) 0 then u\n'
                        '           else norm %s (norm %s (Z.lor (norm %s u) (eval env0 notabs %s))) in\n  ') % (
                    field, xexpr(cond, ()), coq_ty((False, uw)), coq_ty(comp), coq_ty(comp), xexpr(ts[0]['inner'][1], ()))
                rest = rest[1:]
            if len(rest) != 1 or rest[0]['kind'] != 'ReturnStmt':
                raise Untranslatable(fn.name + ': return')
            r = strip(rest[0]['inner'][0])
            if r['kind'] != 'MemberExpr':
                raise Untranslatable(fn.name + ': return member')
            rf = r['name']
            if rf == field:
                conv = 'u'
            elif rf.startswith('s'):
                conv = 'as_signed %d u' % uw
            elif rf.startswith('f'):
                conv = 'u'    # float members: the bit pattern
            else:
                raise Untranslatable(fn.name + ': member ' + rf)
            return 'Definition %s (mem : list Z) (pos : nat) : Z :=\n  %s%s.' % (fn.name, txt, conv)
        # shape C: return f(g(ptr))
        if len(st) == 1 and st[0]['kind'] == 'ReturnStmt':
            return 'Definition %s (mem : list Z) (pos : nat) : Z := %s.' % (fn.name, tr_ref_call(st[0]['inner'][0], fn))
    # --- set functions: parameters ptr, value
    if pnames == ['ptr', 'value']:
        decls = [vardecl(s) for s in st]
        if len(st) >= 3 and decls[0] is not None and decls[0]['name'] == 'src':
            d = strip(decls[0]['inner'][0])
            if d['kind'] != 'UnaryOperator' or d.get('opcode') != '&' or strip(d['inner'][0])['referencedDecl']['name'] != 'value':
                raise Untranslatable(fn.name + ': src must be &value')
            sz = width_of(fn.params[1]) // 8
            if decls[1]['name'] != 'dst' or not is_ptr_param(decls[1]['inner'][0]):
                raise Untranslatable(fn.name + ': dst must be ptr')
            mv = moves(st[2:-1], fn)
            r = strip(st[-1]['inner'][0])
            if st[-1]['kind'] != 'ReturnStmt' or r['kind'] != 'BinaryOperator' or r['opcode'] != '+':
                raise Untranslatable(fn.name + ': must return dst + k')
            a, b = strip(r['inner'][0]), strip(r['inner'][1])
            if b['kind'] == 'UnaryExprOrTypeTraitExpr' and b.get('name') == 'sizeof':
                # sizeof(value) / sizeof(type)
                if 'argType' in b:
                    kk = sizeof_type(b['argType'].get('desugaredQualType', b['argType']['qualType']))
                else:
                    kk = width_of(strip(b['inner'][0])) // 8
                b = {'kind': 'IntegerLiteral', 'value': str(kk)}
            if a.get('referencedDecl', {}).get('name') != 'dst' or b['kind'] != 'IntegerLiteral':
                raise Untranslatable(fn.name + ': must return dst + k')
            return 'Definition %s (mem : list Z) (pos : nat) (value : Z) : list Z * nat :=\n  moves_set big %d [%s]%%nat %d mem pos value.' % (
                fn.name, sz, '; '.join('(%d, %d)' % m for m in mv), int(b['value']))
        if decls[0] is not None and decls[0]['name'] == 'data':
            init = decls[0]['inner'][0]
            field = init['field']['name']
            if strip(init['inner'][0]).get('referencedDecl', {}).get('name') != 'value':
                raise Untranslatable(fn.name + ': union init from value')
            if len(st) != 2 or st[1]['kind'] != 'ReturnStmt':
                raise Untranslatable(fn.name + ': return')
            name, args = call_parts(st[1]['inner'][0])
            if not is_ptr_param(args[0]):
                raise Untranslatable(fn.name + ': first arg ptr')
            m = strip(args[1])
            if m['kind'] != 'MemberExpr':
                raise Untranslatable(fn.name + ': second arg member')
            uw = width_of(args[1])
            conv = 'value' if m['name'] == field else ('as_unsigned %d value' % uw if field.startswith('s') else 'value')
            return 'Definition %s (mem : list Z) (pos : nat) (value : Z) : list Z * nat :=\n  %s mem pos (%s).' % (fn.name, name, conv)
        if len(st) == 1 and st[0]['kind'] == 'ReturnStmt':
            name, args = call_parts(st[0]['inner'][0])
            if not is_ptr_param(args[0]):
                raise Untranslatable(fn.name + ': first arg ptr')
            return 'Definition %s (mem : list Z) (pos : nat) (value : Z) : list Z * nat :=\n  %s mem pos %s.' % (
                fn.name, name, tr_value_arg(args[1], fn))
    raise Untranslatable(fn.name + ': unrecognised function shape')

def run(cfg, outdir):
    flags = CONFIGS[cfg]
    extra = [f for f in flags] + ['-x', 'c']
    # the common CFLAGS carry LITTLE + BUILTIN: neutralise them first
    base = ['-USYSTEM_ENDIANNESS_LITTLE', '-UUFW_USE_BUILTIN_SWAP']
    objs = clang_ast(REPO + '/include/ufw/binary-format.h', 'bf_', extra=base + extra)
    fns = []
    seen = set()
    for o in objs:
        if o.get('kind') == 'FunctionDecl' and o.get('name', '').startswith('bf_') and o['name'] not in seen:
            if any(c['kind'] == 'CompoundStmt' for c in o.get('inner', [])):
                seen.add(o['name']); fns.append(Fn(o))
    if len(fns) == 0:
        raise Untranslatable('no functions found')
    out = ['(* GENERATED by tools/bf2coq.py from include/ufw/binary-format.h, configuration %s (%s) -- do not edit *)' % (cfg, ' '.join(flags)),
           'From Ufw Require Import Base.Bits Base.Cexpr Model.BinFmt.',
           'From Coq Require Import String.', 'Local Open Scope Z_scope.', 'Local Open Scope string_scope.', '',
           'Definition big : bool := %s.' % ('true' if cfg == 'BM' else 'false'), '']
    for f in fns:
        out.append(translate(f)); out.append('')
    out.append('Definition bf_function_names : list string :=\n  [%s].' % '; '.join('"%s"' % f.name for f in fns))
    refs = [f.name for f in fns if [p['name'] for p in f.params] == ['ptr']]
    sets = [f.name for f in fns if [p['name'] for p in f.params] == ['ptr', 'value']]
    ints = [f.name for f in fns if [p['name'] for p in f.params] == ['value']]
    out.append('Definition bf_ref_table : list (string * (list Z -> nat -> Z)) :=\n  [%s].' % '; '.join('("%s", %s)' % (n, n) for n in refs))
    out.append('Definition bf_set_table : list (string * (list Z -> nat -> Z -> list Z * nat)) :=\n  [%s].' % '; '.join('("%s", %s)' % (n, n) for n in sets))
    out.append('Definition bf_int_table : list (string * (Z -> Z)) :=\n  [%s].' % '; '.join('("%s", %s)' % (n, n) for n in ints))
    write_if_changed(os.path.join(outdir, 'BfGen_%s.v' % cfg), '\n'.join(out) + '\n')
    return len(fns)

if __name__ == '__main__':
    try:
        for cfg in CONFIGS:
            n = run(cfg, sys.argv[1])
            print('%s: %d functions' % (cfg, n))
    except Untranslatable as e:
        print('UNTRANSLATABLE: %s' % e); sys.exit(2)
