#!/bin/sh
# every thorough check in turn (clean rebuild + coqchk + deep generators); prints one line per property
cd "$(dirname "$0")/.."
for id in C01 C02 C03 C04 C05 C06 C07 C08 C09 C10 C11 C12 C13 C14 C15 C16 C17 C18 C19 C20; do
  ./check $id --tier thorough > .work/thorough_$id.log 2>&1; rc=$?
  echo "$id rc=$rc $(grep -c '^VIOLATION' .work/thorough_$id.log) violations; $(tail -1 .work/thorough_$id.log)"
done
