#!/usr/bin/env python3
"""tools/cmp.py Cxx [n] [tier]: regenerate the property's cases, run model and harness (already built by ./check),
print the first n mismatch groups.  Debugging aid only."""
import sys, os, random, importlib, collections
sys.path.insert(0, '/verif/tools'); sys.path.insert(0, '/verif/props')
import runner as R
pid = sys.argv[1]; n = int(sys.argv[2]) if len(sys.argv) > 2 else 10
tier = sys.argv[3] if len(sys.argv) > 3 else 'quick'
P = importlib.import_module(pid)
cases = list(P.gen(random.Random(int(os.environ.get('VERIF_SEED', '1'))), tier))
if len(sys.argv) > 4: cases = cases[:int(sys.argv[4])]
lines = ['%d %s' % (i, c) for i, c in enumerate(cases)]
mo = R.run_driver('/verif/.work/ocaml/driver', lines, False)
co = R.run_driver('/verif/.work/c-%s/drv' % pid, lines, True)
groups = collections.OrderedDict()
for i, c in enumerate(cases):
    m = mo.get(str(i), '<none>'); x = co.get(str(i), '<none>')
    if m != x:
        mt = m.split(); xt = x.split()
        k = next((j for j in range(min(len(mt), len(xt))) if mt[j] != xt[j]), min(len(mt), len(xt)))
        key = (c.split()[0], mt[k] if k < len(mt) else '', xt[k] if k < len(xt) else '')
        groups.setdefault(key, []).append((c, m, x))
print(len(cases), 'cases;', sum(len(v) for v in groups.values()), 'mismatches;', len(groups), 'groups')
for key, v in list(groups.items())[:n]:
    c, m, x = min(v, key=lambda t: len(t[0]))
    print('==', key, len(v)); print(' case ', c); print(' model', m); print(' impl ', x)
