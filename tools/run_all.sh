#!/bin/sh
# run every claimed check (quick tier by default) and summarise
cd "$(dirname "$0")/.."
T=${1:-quick}
for id in $(python3 -c "import json;print(' '.join(c['property_id'] for c in json.load(open('MANIFEST.json'))['checks']))"); do
  ./check $id --tier $T > .work/run_$id.log 2>&1; rc=$?
  echo "$id rc=$rc $(grep -c '^VIOLATION' .work/run_$id.log) violations; $(tail -1 .work/run_$id.log)"
done
