#!/bin/sh
# tools/try_all_seeds.sh : apply every seeded change in turn to /repo, run the quick check of its property, undo; one line per seed.
# (regression test of the checks themselves: every seed must still be reported)
# optional arguments: property ids to restrict the run to (e.g. tools/try_all_seeds.sh C01 C10)
cd /verif
for d in seeded/*/; do
  n=$(basename $d); id=$(echo $n | cut -c1-3)
  if [ $# -gt 0 ]; then case " $* " in *" $id "*) ;; *) continue;; esac; fi
  [ -f $d/patch.diff ] || continue
  out=$(tools/try_seed.sh /verif/$d/patch.diff $id 2>&1)
  if echo "$out" | grep -q '^VIOLATION'; then echo "$n detected"; else echo "$n NOT DETECTED: $(echo "$out" | tail -1)"; fi
done
git -C /repo status --short | grep -v _build
