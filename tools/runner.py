"""Shared machinery of ./check: translate -> prove -> build -> correspond -> verdict -> evidence.

Every step rebuilds from /repo's current working tree.  See DESIGN.md section 2.3."""
import os, sys, re, json, time, subprocess, glob, random, hashlib, shutil, fcntl
from concurrent.futures import ThreadPoolExecutor

VERIF = os.path.dirname(os.path.dirname(os.path.abspath(__file__)))
REPO = os.environ.get('UFW_REPO', '/repo')
WORK = os.path.join(VERIF, '.work')
COQ = os.path.join(VERIF, 'coq')
NPROC = 16
DRIVER_TIMEOUT = int(os.environ.get('VERIF_DRIVER_TIMEOUT', '120'))
DRIVER_BATCH = int(os.environ.get('VERIF_DRIVER_BATCH', '20000'))

CFLAGS = ['-std=gnu99', '-g', '-O1', '-fsanitize=address,undefined', '-fno-sanitize-recover=all',
          '-fno-omit-frame-pointer', '-D_DEFAULT_SOURCE', '-DSYSTEM_ENDIANNESS_LITTLE',
          '-DUFW_USE_BUILTIN_SWAP', '-DFT_UFW_VERIF',
          '-I' + REPO + '/include', '-I' + VERIF + '/harness/include', '-I' + VERIF + '/harness', '-w']

LINT_RE = re.compile(r'\b(Admitted|admit|Axiom|Parameter|Conjecture|Abort All|bypass_check)\b|Unset Guard|type-in-type|impredicative-set|Admit Obligations')


def sh(cmd, timeout=None, cwd=None, env=None, inp=None):
    p = subprocess.run(cmd, cwd=cwd, env=env, input=inp, capture_output=True, text=True, timeout=timeout)
    return p.returncode, p.stdout, p.stderr


class Lock:
    def __init__(self, name):
        os.makedirs(WORK, exist_ok=True)
        self.path = os.path.join(WORK, name + '.lock')
    def __enter__(self):
        self.f = open(self.path, 'w'); fcntl.flock(self.f, fcntl.LOCK_EX); return self
    def __exit__(self, *a):
        fcntl.flock(self.f, fcntl.LOCK_UN); self.f.close()


# ---------------------------------------------------------------- translate
def translate(translators, log):
    """translators: list of (script, [args...]) relative to tools/.  Returns list of failures."""
    fails = []
    for script, args in translators:
        rc, out, err = sh([sys.executable, os.path.join(VERIF, 'tools', script)] + args, timeout=300,
                          env=dict(os.environ, UFW_REPO=REPO))
        log.append('translate %s %s -> rc=%d %s' % (script, ' '.join(args), rc, (out + err).strip()[:500]))
        if rc != 0:
            fails.append({'translator': script, 'output': (out + err)[-2000:]})
    return fails


# ---------------------------------------------------------------- prove
def coq_files():
    fs = []
    for root, _, names in os.walk(COQ):
        for n in names:
            if n.endswith('.v') and n != 'Extract.v':
                fs.append(os.path.relpath(os.path.join(root, n), COQ))
    return sorted(fs)


def coq_makefile():
    files = coq_files()
    try:
        os.remove(os.path.join(COQ, '.Makefile.d'))
    except OSError:
        pass
    rc, out, err = sh(['coq_makefile', '-f', '_CoqProject'] + files + ['-o', 'Makefile'], cwd=COQ, timeout=120)
    if rc != 0:
        raise RuntimeError('coq_makefile failed: ' + err)


def lint():
    bad = []
    for f in coq_files() + ['Extract.v']:
        p = os.path.join(COQ, f)
        txt = open(p).read()
        txt = re.sub(r'\(\*.*?\*\)', '', txt, flags=re.S)
        for i, line in enumerate(txt.split('\n')):
            if LINT_RE.search(line):
                bad.append('%s:%d: %s' % (f, i + 1, line.strip()[:120]))
    return bad


def prove(targets, log, clean=False, timeout=3000):
    """make the given .vo targets.  Returns (ok, output, assumptions dict)."""
    coq_makefile()
    if clean:
        sh(['make', 'clean'], cwd=COQ, timeout=300)
    t0 = time.time()
    rc, out, err = sh(['timeout', str(timeout), 'make', '-k', '-j%d' % NPROC] + targets, cwd=COQ, timeout=timeout + 60)
    log.append('make %s -> rc=%d in %.1fs' % (' '.join(targets), rc, time.time() - t0))
    assumptions = {}
    # Print Assumptions output only appears when the file is (re)compiled; re-run coqc on the property files
    # (cheap: they contain only `exact`) so that the evidence always carries it.
    if rc == 0:
        for t in targets:
            if os.path.basename(t).startswith('Properties_'):
                v = t[:-1]
                rc2, out2, err2 = sh(['timeout', '600', 'coqc', '-Q', '.', 'Ufw', '-w', '-all', v], cwd=COQ, timeout=700)
                if rc2 != 0:
                    return False, out2 + err2, assumptions
                names = re.findall(r'^\s*(?:Theorem|Lemma|Example|Corollary)\s+(\w+)', open(os.path.join(COQ, v)).read(), flags=re.M)
                pa = re.findall(r'^Print Assumptions (\w+)\.', open(os.path.join(COQ, v)).read(), flags=re.M)
                chunks = re.split(r'(?=Closed under the global context|Axioms:)', out2)
                chunks = [c.strip() for c in chunks if c.strip()]
                for n, c in zip(pa, chunks):
                    assumptions[n] = c
                assumptions['_theorems_' + v] = names
    return rc == 0, (out + err)[-6000:], assumptions


def cone(target_v):
    """.v files the target depends on (transitively), via coqdep."""
    rc, out, err = sh(['coqdep', '-Q', '.', 'Ufw'] + coq_files(), cwd=COQ, timeout=120)
    deps = {}
    for line in out.split('\n'):
        m = re.match(r'^(\S+)\.vo.*?:\s*(.*)$', line)
        if not m:
            continue
        tgt = m.group(1) + '.v'
        ds = [d[:-1] for d in m.group(2).split() if d.endswith('.vo')]
        deps.setdefault(tgt, set()).update(ds)
    seen = set(); todo = [target_v]
    while todo:
        f = todo.pop()
        f = os.path.normpath(f)
        if f in seen:
            continue
        seen.add(f)
        for d in deps.get(f, ()):
            todo.append(os.path.normpath(d))
    return sorted(seen)


def count_obligations(files):
    n = 0; per = {}
    for f in files:
        p = os.path.join(COQ, f)
        if not os.path.exists(p):
            continue
        txt = re.sub(r'\(\*.*?\*\)', '', open(p).read(), flags=re.S)
        k = len(re.findall(r'^\s*(?:Global\s+|Local\s+)?(?:Theorem|Lemma|Example|Corollary|Fact|Remark|Proposition)\s+\w+', txt, flags=re.M))
        per[f] = k; n += k
    return n, per


def discharged(files, per):
    """obligations whose .vo exists and is newer than its .v"""
    n = 0
    for f in files:
        v = os.path.join(COQ, f); vo = v + 'o'
        if os.path.exists(vo) and os.path.getmtime(vo) >= os.path.getmtime(v):
            n += per.get(f, 0)
    return n


def coqchk(target_mods, log, timeout=1800):
    rc, out, err = sh(['timeout', str(timeout), 'coqchk', '-o', '-silent', '-Q', '.', 'Ufw'] + target_mods, cwd=COQ, timeout=timeout + 60)
    log.append('coqchk %s -> rc=%d' % (' '.join(target_mods), rc))
    return rc == 0, (out + err)[-4000:]


# ---------------------------------------------------------------- build drivers
def build_ocaml(log):
    d = os.path.join(WORK, 'ocaml'); os.makedirs(d, exist_ok=True)
    # the extraction needs Corr/Dispatch.vo
    rc, out, err = sh(['timeout', '1500', 'make', '-j%d' % NPROC, 'Corr/Dispatch.vo'], cwd=COQ, timeout=1600)
    if rc != 0:
        log.append('model build failed: ' + (out + err)[-1500:])
        return None
    stamp = os.path.join(d, 'stamp')
    key = hashlib.sha1()
    for f in sorted(glob.glob(COQ + '/**/*.vo', recursive=True)):
        if '/Proof/' in f or 'Properties_' in f:
            continue
        key.update(f.encode()); key.update(open(f, 'rb').read())
    key.update(open(os.path.join(VERIF, 'ocaml', 'driver.ml'), 'rb').read())
    key.update(open(os.path.join(COQ, 'Extract.v'), 'rb').read())
    k = key.hexdigest()
    exe = os.path.join(d, 'driver')
    if os.path.exists(stamp) and open(stamp).read() == k and os.path.exists(exe):
        return exe
    shutil.copy(os.path.join(COQ, 'Extract.v'), os.path.join(d, 'Extract.v'))
    shutil.copy(os.path.join(VERIF, 'ocaml', 'driver.ml'), os.path.join(d, 'driver.ml'))
    rc, out, err = sh(['timeout', '600', 'coqc', '-Q', COQ, 'Ufw', 'Extract.v'], cwd=d, timeout=700)
    if rc != 0:
        log.append('extraction failed: ' + (out + err)[-1500:]); return None
    rc, out, err = sh(['ocamlfind', 'ocamlopt', '-O3', '-w', '-a', 'model.mli', 'model.ml', 'driver.ml', '-o', 'driver'], cwd=d, timeout=600)
    if rc != 0:
        log.append('ocaml build failed: ' + (out + err)[-1500:]); return None
    open(stamp, 'w').write(k)
    log.append('ocaml driver rebuilt')
    return exe


LIB_SKIP = ('/z/', '/test/', '/endpoints/posix.c')

def lib_sources():
    src = sorted(glob.glob(REPO + '/src/*.c') + glob.glob(REPO + '/src/*/*.c'))
    return [s for s in src if not any(k in s for k in LIB_SKIP)]


def build_c(pid, mods, log, extra_flags=(), exclude=()):
    """Compile the library from the working tree + the harness modules. Returns exe path or None."""
    d = os.path.join(WORK, 'c-' + pid); shutil.rmtree(d, ignore_errors=True); os.makedirs(d)
    srcs = [s for s in lib_sources() if os.path.basename(s) not in exclude]
    hsrcs = [os.path.join(VERIF, 'harness', 'main.c')] + [os.path.join(VERIF, 'harness', 'h_%s.c' % m) for m in mods]
    defs = ['-DH_' + m.upper() for m in mods]
    jobs = []
    for i, s in enumerate(srcs + hsrcs):
        o = os.path.join(d, '%d_%s.o' % (i, os.path.basename(s)[:-2]))
        jobs.append((['gcc'] + CFLAGS + list(extra_flags) + defs + ['-c', s, '-o', o], o, s))
    def run(j):
        rc, out, err = sh(j[0], timeout=600)
        return rc, err, j[2]
    t0 = time.time()
    with ThreadPoolExecutor(NPROC) as ex:
        res = list(ex.map(run, jobs))
    bad = [(s, e) for rc, e, s in res if rc != 0]
    if bad:
        log.append('C build failed: ' + '; '.join('%s: %s' % (s, e[-800:]) for s, e in bad)); return None
    exe = os.path.join(d, 'drv')
    rc, out, err = sh(['gcc', '-fsanitize=address,undefined'] + [j[1] for j in jobs] + ['-lm', '-o', exe], timeout=600)
    if rc != 0:
        log.append('C link failed: ' + err[-1500:]); return None
    log.append('C harness built from %s in %.1fs (%d lib sources)' % (REPO, time.time() - t0, len(srcs)))
    return exe


# ---------------------------------------------------------------- run + compare
def run_driver(exe, lines, is_c):
    """Run a driver over the lines ("id op args").  Returns dict id -> observation string.
    A sanitizer abort / crash of the C driver is attributed to the announced case and the rest is re-run."""
    obs = {}
    pending = lines
    env = dict(os.environ, ASAN_OPTIONS='detect_leaks=1:abort_on_error=0:exitcode=99:allocator_may_return_null=1',
               UBSAN_OPTIONS='print_stacktrace=0:exitcode=98')
    cmd = [exe] if is_c else ['sh', '-c', 'ulimit -s 2000000 2>/dev/null || true; exec "$0"', exe]
    hangs = [0]
    def once(batch):
        # after three confirmed hangs the verdict is settled: do not spend the full limit on every further one
        limit = DRIVER_TIMEOUT if hangs[0] < 3 else min(DRIVER_TIMEOUT, 15)
        try:
            p = subprocess.run(cmd, input='\n'.join(batch) + '\n', capture_output=True, text=True, env=env, timeout=limit)
            return p.returncode, p.stdout, p.stderr
        except subprocess.TimeoutExpired as e:
            return 97, (e.stdout or b'').decode() if isinstance(e.stdout, bytes) else (e.stdout or ''), \
                (e.stderr or b'').decode() if isinstance(e.stderr, bytes) else (e.stderr or '')
    # the time limit is meant for ONE case that hangs: feed the driver bounded batches so that a slow machine or a huge
    # case list cannot exhaust it, and confirm a suspected hang by running the case on its own
    queue = [lines[k:k + DRIVER_BATCH] for k in range(0, len(lines), DRIVER_BATCH)]
    pending = []
    while pending or queue:
        if not pending:
            pending = queue.pop(0)
        rc, out, err = once(pending)
        if rc == 97:
            ann = re.findall(r'^@case (\S+)', err, flags=re.M)
            cand = [l for l in pending if ann and l.split(' ', 1)[0] == ann[-1]]
            if cand and hangs[0] < 3:
                rc1, out1, err1 = once(cand)
                if rc1 == 97:
                    hangs[0] += 1
                if rc1 == 0:
                    # not a hang: the batch as a whole ran out of time; keep what was done and go on behind it
                    for l in (out + '\n' + out1).split('\n'):
                        if l:
                            i = l.split(' ', 1)[0]
                            obs[i] = l[len(i) + 1:] if ' ' in l else ''
                    pending = [l for l in pending if l.split(' ', 1)[0] not in obs]
                    continue
        done = set()
        for l in out.split('\n'):
            if not l:
                continue
            i = l.split(' ', 1)[0]
            obs[i] = l[len(i) + 1:] if ' ' in l else ''
            done.add(i)
        if rc == 0:
            pending = []
            continue
        if not is_c:
            # the model driver must never fail
            rest = [l for l in pending if l.split(' ', 1)[0] not in done]
            if rest:
                obs[rest[0].split(' ', 1)[0]] = 'MODEL-DRIVER-FAILED rc=%d %s' % (rc, err[-200:].replace('\n', ' '))
                pending = rest[1:]
                continue
            pending = []
            continue
        announced = re.findall(r'^@case (\S+)', err, flags=re.M)
        culprit = announced[-1] if announced else None
        kind = 'crash rc=%d' % rc
        m = re.search(r'ERROR: AddressSanitizer: ([\w-]+)', err)
        if m:
            kind = 'asan:' + m.group(1)
        elif 'LeakSanitizer' in err:
            kind = 'lsan:leak'
        else:
            m = re.search(r'runtime error: ([^\n]{0,80})', err)
            if m:
                kind = 'ubsan:' + re.sub(r'\s+', '_', m.group(1))[:60]
            elif rc == 97:
                kind = 'timeout'
        if culprit is None or culprit in done and 'lsan' not in kind:
            # cannot attribute: mark everything not done
            rest = [l for l in pending if l.split(' ', 1)[0] not in done]
            if not rest:
                if 'lsan' in kind:
                    obs['_leak'] = 'SAN ' + kind
                pending = []
                continue
            culprit = rest[0].split(' ', 1)[0]
        if 'lsan' in kind and culprit in done:
            # leak reported at exit: attribute by bisection later; record globally
            obs['_leak'] = 'SAN ' + kind + ' ' + re.sub(r'\s+', ' ', err[-400:])
            pending = []
            continue
        obs[culprit] = 'SAN ' + kind
        idx = [k for k, l in enumerate(pending) if l.split(' ', 1)[0] == culprit]
        pending = pending[idx[0] + 1:] if idx else []
    return obs


def correspond(cexe, mexe, cases, log, shards=NPROC):
    """cases: list of 'op args' strings.  Returns (mismatches, stats)."""
    lines = ['%d %s' % (i, c) for i, c in enumerate(cases)]
    n = len(lines)
    if n == 0:
        return [], {'evaluations': 0}
    k = max(1, min(shards, n // 50 + 1))
    parts = [lines[i::k] for i in range(k)]
    t0 = time.time()
    with ThreadPoolExecutor(2 * k) as ex:
        fc = [ex.submit(run_driver, cexe, p, True) for p in parts]
        fm = [ex.submit(run_driver, mexe, p, False) for p in parts]
        cobs = {}; mobs = {}
        for f in fc: cobs.update(f.result())
        for f in fm: mobs.update(f.result())
    mism = []
    for i, c in enumerate(cases):
        a = cobs.get(str(i), 'MISSING'); b = mobs.get(str(i), 'MISSING')
        if a != b:
            mism.append({'case': c, 'impl': a, 'model': b})
    if '_leak' in cobs:
        mism.append({'case': '(whole batch)', 'impl': cobs['_leak'], 'model': 'no leak'})
    log.append('correspondence: %d cases, %d mismatches, %.1fs' % (n, len(mism), time.time() - t0))
    return mism, {'evaluations': n, 'corr_wall_s': round(time.time() - t0, 2), 'cobs': cobs, 'mobs': mobs}


def shrink(cexe, mexe, case, budget=200):
    """Greedy delta debugging over list/octet-string arguments and halving of integers;
    a candidate is kept when implementation and model still disagree on it."""
    def differs(c):
        a = run_driver(cexe, ['0 ' + c], True).get('0', 'MISSING')
        b = run_driver(mexe, ['0 ' + c], False).get('0', 'MISSING')
        return (a != b and 'unknown-op' not in b and b.split(' ')[0] != 'skip'), a, b
    toks = case.split(' ')
    best = toks; tries = 0
    changed = True
    while changed and tries < budget:
        changed = False
        for i in range(1, len(best)):
            t = best[i]
            cands = []
            if t.startswith('h:') and len(t) > 2:
                body = t[2:]; n = len(body) // 2
                for cut in (n // 2, 1):
                    if cut >= 1 and n - cut >= 0:
                        cands.append('h:' + body[:2 * (n - cut)])
                        cands.append('h:' + body[2 * cut:])
            elif t.startswith('l:') and len(t) > 2:
                el = t[2:].split(',')
                for cut in (len(el) // 2, 1):
                    if cut >= 1:
                        cands.append('l:' + ','.join(el[:len(el) - cut]))
                        cands.append('l:' + ','.join(el[cut:]))
            elif re.fullmatch(r'\d+', t) and int(t) > 1:
                cands.append(str(int(t) // 2)); cands.append(str(int(t) - 1))
            for c in cands:
                tries += 1
                cand = best[:i] + [c] + best[i + 1:]
                d, a, b = differs(' '.join(cand))
                if d:
                    best = cand; changed = True
                    break
                if tries >= budget:
                    break
    d, a, b = differs(' '.join(best))
    return ' '.join(best), a, b


# ---------------------------------------------------------------- known findings
def known_findings(pid):
    out = []
    p = os.path.join(VERIF, 'KNOWN_FINDINGS.txt')
    if not os.path.exists(p):
        return out
    for line in open(p):
        line = line.strip()
        m = re.match(r'^known:\s+property=(\S+)\s+id=(\S+)\s+match=(\S+)\s+(.*)$', line)
        if m and m.group(1) == pid:
            out.append({'id': m.group(2), 'match': m.group(3), 'text': m.group(4)})
    return out


def matches_known(kf, mismatch):
    """match=<regex over 'case'> (url-ish escaping: '~' stands for a blank)."""
    rx = kf['match'].replace('~', ' ')
    return re.search(rx, mismatch['case']) is not None


# ---------------------------------------------------------------- evidence
def write_evidence(pid, tier, seed, coverage, assumptions, wall, violations):
    os.makedirs(os.path.join(VERIF, 'evidence'), exist_ok=True)
    ev = {'property_id': pid, 'tier': tier, 'seed': seed, 'level': 'proof', 'coverage': coverage,
          'assumptions': assumptions, 'wall_s': round(wall, 2), 'violations': violations}
    with open(os.path.join(VERIF, 'evidence', pid + '.json'), 'w') as f:
        json.dump(ev, f, indent=1, sort_keys=True)


def write_replay(pid, payload):
    d = os.path.join(VERIF, 'replay'); os.makedirs(d, exist_ok=True)
    n = 0
    while os.path.exists(os.path.join(d, '%s-%d.json' % (pid, n))):
        n += 1
    p = os.path.join(d, '%s-%d.json' % (pid, n))
    with open(p, 'w') as f:
        json.dump(payload, f, indent=1)
    return os.path.relpath(p, VERIF)
