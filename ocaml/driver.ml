(* Generic correspondence driver: reads "op arg arg ..." lines, prints the
   model's observation as tokens.  All modelling lives in the extracted Coq. *)
open Model


(* --- conversion between decimal/hex strings and the extracted binary numbers
       (no OCaml int on the data path: values may exceed 2^62) --- *)
let n_two = Npos (XO XH)
let rec n_of_small (i : int) : n =
  if i = 0 then N0 else
  let h = n_of_small (i / 2) in
  let d = N.mul n_two h in
  if i land 1 = 1 then N.add d (Npos XH) else d
let n_ten = n_of_small 10
let n_of_dec (s : string) : n =
  let r = ref N0 in
  String.iter (fun c ->
    if c < '0' || c > '9' then failwith ("bad number " ^ s);
    r := N.add (N.mul !r n_ten) (n_of_small (Char.code c - 48))) s;
  !r
(* N -> decimal string via repeated division by 10^9 in OCaml ints *)
let rec small_of_pos (p : positive) : int =
  match p with XH -> 1 | XO q -> 2 * small_of_pos q | XI q -> 2 * small_of_pos q + 1
let small_of_n (x : n) : int = match x with N0 -> 0 | Npos p -> small_of_pos p
let n_1e9 = n_of_small 1000000000
let dec_of_n (x : n) : string =
  if x = N0 then "0" else begin
    let chunks = ref [] and cur = ref x in
    while !cur <> N0 do
      let (q, r) = N.div_eucl !cur n_1e9 in
      chunks := small_of_n r :: !chunks; cur := q
    done;
    match !chunks with
    | [] -> "0"
    | h :: t -> String.concat "" (string_of_int h :: List.map (Printf.sprintf "%09d") t)
  end
let z_of_dec (s : string) : z =
  if String.length s > 0 && s.[0] = '-' then
    (match n_of_dec (String.sub s 1 (String.length s - 1)) with N0 -> Z0 | Npos p -> Zneg p)
  else (match n_of_dec s with N0 -> Z0 | Npos p -> Zpos p)
let dec_of_z (x : z) : string =
  match x with Z0 -> "0" | Zpos p -> dec_of_n (Npos p) | Zneg p -> "-" ^ dec_of_n (Npos p)

let chars_of_string (s : string) : char list = List.init (String.length s) (String.get s)
let string_of_chars (l : char list) : string = String.concat "" (List.map (String.make 1) l)

let hexval c =
  match c with
  | '0'..'9' -> Char.code c - 48 | 'a'..'f' -> Char.code c - 87 | 'A'..'F' -> Char.code c - 55
  | _ -> failwith "bad hex"
let octet_tab = Array.init 256 n_of_small
let parse_hex (s : string) : n list =
  let k = String.length s / 2 in
  List.init k (fun i -> octet_tab.(16 * hexval s.[2*i] + hexval s.[2*i+1]))

let parse_int (s : string) : val0 =
  if String.length s > 0 && s.[0] = '-' then VZ (z_of_dec s) else VN (n_of_dec s)

let parse_tok (t : string) : val0 =
  let l = String.length t in
  if l >= 2 && t.[0] = 'h' && t.[1] = ':' then VH (parse_hex (String.sub t 2 (l - 2)))
  else if l >= 2 && t.[0] = 'l' && t.[1] = ':' then
    (if l = 2 then VL [] else VL (List.map parse_int (String.split_on_char ',' (String.sub t 2 (l - 2)))))
  else if l >= 2 && t.[0] = 's' && t.[1] = ':' then VS (chars_of_string (String.sub t 2 (l - 2)))
  else parse_int t

let rec print_val (b : Buffer.t) (v : val0) : unit =
  match v with
  | VN x -> Buffer.add_string b (dec_of_n x)
  | VZ x -> Buffer.add_string b (dec_of_z x)
  | VH l -> Buffer.add_string b "h:";
            List.iter (fun x -> Buffer.add_string b (Printf.sprintf "%02x" (small_of_n x))) l
  | VL l -> Buffer.add_string b "l:";
            List.iteri (fun i x -> if i > 0 then Buffer.add_char b ','; print_val b x) l
  | VS s -> Buffer.add_string b (string_of_chars s)

let () =
  let b = Buffer.create 4096 in
  (try
    while true do
      let line = input_line stdin in
      let toks = List.filter (fun s -> s <> "") (String.split_on_char ' ' line) in
      match toks with
      | [] -> ()
      | id :: op :: args ->
        let res = dispatch (chars_of_string op) (List.map parse_tok args) in
        Buffer.clear b;
        Buffer.add_string b id;
        List.iter (fun v -> Buffer.add_char b ' '; print_val b v) res;
        print_endline (Buffer.contents b)
      | _ -> failwith "short line"
    done
  with End_of_file -> ())
