#include "hval.h"
#include <ufw/register-table.h>

/* ---- custom (callback-backed) areas store into harness arrays ---- */
#define MAXAREAS 8
static RegisterAtom *g_store[MAXAREAS]; static size_t g_storelen[MAXAREAS];
static RegisterArea *g_areas;

static int area_index(const RegisterArea *a) { return (int)(a - g_areas); }
static RegisterAccess cust_read(const RegisterArea *a, RegisterAtom *dest, RegisterOffset off, RegisterOffset n)
{
    RegisterAccess rv = REG_ACCESS_RESULT_INIT;
    memcpy(dest, g_store[area_index(a)] + off, n * sizeof(RegisterAtom));
    return rv;
}
static int g_fail_code, g_fail_hit;   /* op 13: the write driver of callback-backed areas fails with this code, storing nothing */
static RegisterAccess cust_write(RegisterArea *a, const RegisterAtom *src, RegisterOffset off, RegisterOffset n)
{
    RegisterAccess rv = REG_ACCESS_RESULT_INIT;
    if (g_fail_code) { g_fail_hit = 1; rv.code = (RegisterAccessCode)g_fail_code; rv.address = a->base + off; return rv; }
    memcpy(g_store[area_index(a)] + off, src, n * sizeof(RegisterAtom));
    return rv;
}

static uint64_t value_bits(const RegisterValue *v)
{
    switch (v->type) {
    case REG_TYPE_UINT16: return v->value.u16; case REG_TYPE_UINT32: return v->value.u32; case REG_TYPE_UINT64: return v->value.u64;
    case REG_TYPE_SINT16: return (uint16_t)v->value.s16; case REG_TYPE_SINT32: return (uint32_t)v->value.s32; case REG_TYPE_SINT64: return (uint64_t)v->value.s64;
    case REG_TYPE_FLOAT32: { uint32_t u; memcpy(&u, &v->value.f32, 4); return u; }
    case REG_TYPE_FLOAT64: { uint64_t u; memcpy(&u, &v->value.f64, 8); return u; }
    default: return 0;
    }
}
static void set_bits(RegisterValueU *u, RegisterType t, uint64_t bits)
{
    memset(u, 0, sizeof *u);
    switch (t) {
    case REG_TYPE_UINT16: u->u16 = (uint16_t)bits; break; case REG_TYPE_UINT32: u->u32 = (uint32_t)bits; break; case REG_TYPE_UINT64: u->u64 = bits; break;
    case REG_TYPE_SINT16: u->s16 = (int16_t)(uint16_t)bits; break; case REG_TYPE_SINT32: u->s32 = (int32_t)(uint32_t)bits; break; case REG_TYPE_SINT64: u->s64 = (int64_t)bits; break;
    case REG_TYPE_FLOAT32: { uint32_t b = (uint32_t)bits; memcpy(&u->f32, &b, 4); break; }
    case REG_TYPE_FLOAT64: memcpy(&u->f64, &bits, 8); break;
    default: break;
    }
}
static RegisterType type_of(uint64_t n)
{
    static const RegisterType tt[] = { REG_TYPE_UINT16, REG_TYPE_UINT32, REG_TYPE_UINT64, REG_TYPE_SINT16, REG_TYPE_SINT32, REG_TYPE_SINT64, REG_TYPE_FLOAT32, REG_TYPE_FLOAT64 };
    return tt[n > 7 ? 7 : n];
}
static uint64_t type_n(RegisterType t)
{
    switch (t) { case REG_TYPE_UINT16: return 0; case REG_TYPE_UINT32: return 1; case REG_TYPE_UINT64: return 2; case REG_TYPE_SINT16: return 3;
    case REG_TYPE_SINT32: return 4; case REG_TYPE_SINT64: return 5; case REG_TYPE_FLOAT32: return 6; default: return 7; }
}
/* the callback family (mirrors Model/RegTable.v callback) */
static bool cb_bits(uint64_t k, uint64_t bits) { return k == 0 ? (bits % 2 == 0) : k == 1 ? (bits % 3 == 0) : bits != 0; }
static bool cb0(const RegisterEntry *e, RegisterValue v) { (void)e; return cb_bits(0, value_bits(&v)); }
static bool cb1(const RegisterEntry *e, RegisterValue v) { (void)e; return cb_bits(1, value_bits(&v)); }
static bool cb2(const RegisterEntry *e, RegisterValue v) { (void)e; return cb_bits(2, value_bits(&v)); }

static const char *acode(RegisterAccessCode c)
{
    switch (c) { case REG_ACCESS_SUCCESS: return "SUCCESS"; case REG_ACCESS_FAILURE: return "FAILURE"; case REG_ACCESS_UNINITIALISED: return "UNINITIALISED";
    case REG_ACCESS_NOENTRY: return "NOENTRY"; case REG_ACCESS_RANGE: return "RANGE"; case REG_ACCESS_INVALID: return "INVALID";
    case REG_ACCESS_READONLY: return "READONLY"; default: return "IO_ERROR"; }
}
static const char *icode(RegisterInitCode c)
{
    switch (c) { case REG_INIT_SUCCESS: return "I_SUCCESS"; case REG_INIT_NO_AREAS: return "I_NO_AREAS"; case REG_INIT_AREA_INVALID_ORDER: return "I_AREA_INVALID_ORDER";
    case REG_INIT_AREA_ADDRESS_OVERLAP: return "I_AREA_ADDRESS_OVERLAP"; case REG_INIT_ENTRY_INVALID_ORDER: return "I_ENTRY_INVALID_ORDER";
    case REG_INIT_ENTRY_ADDRESS_OVERLAP: return "I_ENTRY_ADDRESS_OVERLAP"; case REG_INIT_ENTRY_IN_MEMORY_HOLE: return "I_ENTRY_IN_MEMORY_HOLE";
    case REG_INIT_ENTRY_INVALID_DEFAULT: return "I_ENTRY_INVALID_DEFAULT"; case REG_INIT_TABLE_INVALID: return "I_TABLE_INVALID";
    case REG_INIT_TOO_MANY_AREAS: return "I_TOO_MANY_AREAS"; default: return "I_TOO_MANY_ENTRIES"; }
}
static const char *cls(RegisterAccessCode c)
{
    return c == REG_ACCESS_SUCCESS ? "SUCCESS" : c == REG_ACCESS_NOENTRY ? "NOENTRY" : c == REG_ACCESS_UNINITIALISED ? "UNINITIALISED" : "REFUSED";
}
static void out_acc(RegisterAccess r) { out_s(acode(r.code)); if (r.code == REG_ACCESS_SUCCESS) out_s("-"); else out_n(r.address); }

struct fe_ctx { int64_t *script; size_t n, pos; uint64_t handles[64]; size_t nh; };
static int fe_cb(RegisterTable *t, RegisterHandle h, void *arg)
{
    (void)t; struct fe_ctx *c = arg;
    if (c->nh < 64) c->handles[c->nh++] = h;
    if (c->pos < c->n) return (int)c->script[c->pos++];
    return 0;
}

void run_reg(const char *op)
{
    if (strcmp(op, "reg.run")) { out_s("unknown-op"); return; }
    size_t na = aLlen(1) / 4, ne = aLlen(3) / 6;
    if (na > MAXAREAS) { out_s("skip"); return; }
    RegisterArea *areas = calloc(na + 1, sizeof *areas);
    RegisterEntry *entries = calloc(ne + 1, sizeof *entries);
    g_areas = areas;
    size_t wpos = 0;
    for (size_t i = 0; i < na; i++) {
        uint64_t base = aLu(1, 4 * i), size = aLu(1, 4 * i + 1), flags = aLu(1, 4 * i + 2), kind = aLu(1, 4 * i + 3);
        RegisterAtom *mem = malloc((size ? size : 1) * sizeof *mem);     /* exact size: red zones */
        for (size_t j = 0; j < size; j++) mem[j] = (RegisterAtom)(wpos + j < aLlen(2) ? aLu(2, wpos + j) : 0);
        wpos += size;
        g_store[i] = mem; g_storelen[i] = size;
        areas[i].base = (RegisterAddress)base; areas[i].size = (RegisterOffset)size;
        areas[i].flags = (uint16_t)((flags & 1 ? REG_AF_READABLE : 0) | (flags & 2 ? REG_AF_WRITEABLE : 0) | (flags & 4 ? REG_AF_SKIP_DEFAULTS : 0));
        bool is_mem = kind & 4;
        areas[i].read = (kind & 1) ? (is_mem ? reg_mem_read : cust_read) : NULL;
        areas[i].write = (kind & 2) ? (is_mem ? reg_mem_write : cust_write) : NULL;
        areas[i].mem = is_mem ? mem : NULL;
    }
    /* sentinel area: all zero (already) */
    for (size_t i = 0; i < ne; i++) {
        uint64_t ty = aLu(3, 6 * i), def = aLu(3, 6 * i + 1), addr = aLu(3, 6 * i + 2), ck = aLu(3, 6 * i + 3), a = aLu(3, 6 * i + 4), b = aLu(3, 6 * i + 5);
        entries[i].type = type_of(ty); set_bits(&entries[i].default_value, entries[i].type, def);
        entries[i].address = (RegisterAddress)addr;
        switch (ck) {
        case 0: entries[i].check.type = REGV_TYPE_TRIVIAL; break;
        case 1: entries[i].check.type = REGV_TYPE_FAIL; break;
        case 2: entries[i].check.type = REGV_TYPE_MIN; set_bits(&entries[i].check.arg.min, entries[i].type, a); break;
        case 3: entries[i].check.type = REGV_TYPE_MAX; set_bits(&entries[i].check.arg.max, entries[i].type, a); break;
        case 4: entries[i].check.type = REGV_TYPE_RANGE; set_bits(&entries[i].check.arg.range.min, entries[i].type, a);
                set_bits(&entries[i].check.arg.range.max, entries[i].type, b); break;
        default: entries[i].check.type = REGV_TYPE_CALLBACK; entries[i].check.arg.cb = a == 0 ? cb0 : a == 1 ? cb1 : cb2; break;
        }
    }
    entries[ne].type = REG_TYPE_INVALID;
    RegisterTable t; memset(&t, 0, sizeof t);
    t.area = areas; t.entry = entries; t.areas = (AreaHandle)na; t.entries = (RegisterHandle)ne;
    register_make_bigendian(&t, aN(0) != 0);

    size_t nl = aLlen(4), p = 0;
    while (p + 2 <= nl) {
        uint64_t code = aLu(4, p), nargs = aLu(4, p + 1);
        size_t ab = p + 2; p = ab + (size_t)nargs;
        if (p > nl) break;
#define A(i) (aLu(4, ab + (i)))
        switch (code) {
        case 0: {
            RegisterInit r = register_init(&t);
            out_s(icode(r.code));
            if (r.code == REG_INIT_SUCCESS) {
                out_s("-"); out_l_begin();
                for (size_t i = 0; i < na; i++) { out_l_n(areas[i].entry.first); out_l_n(areas[i].entry.last); out_l_n(areas[i].entry.count); }
                out_l_end();
            } else {
                out_n(r.code == REG_INIT_NO_AREAS || r.code == REG_INIT_AREA_INVALID_ORDER || r.code == REG_INIT_AREA_ADDRESS_OVERLAP ? r.pos.area : r.pos.entry);
                out_s("-");
            }
            break; }
        case 1: case 2: case 4: case 5: {
            RegisterValue v; v.type = type_of(A(1)); set_bits(&v.value, v.type, A(2));
            RegisterAccess r = code == 1 ? register_set(&t, (RegisterHandle)A(0), v) : code == 2 ? register_set_unsafe(&t, (RegisterHandle)A(0), v)
                             : code == 4 ? register_bit_set(&t, (RegisterHandle)A(0), v) : register_bit_clear(&t, (RegisterHandle)A(0), v);
            out_s(cls(r.code));
            break; }
        case 13: {
            /* idx type bits checked code: a typed set while the write driver of callback-backed areas fails with <code> */
            RegisterValue v; v.type = type_of(A(1)); set_bits(&v.value, v.type, A(2));
            g_fail_code = (int)A(4); g_fail_hit = 0;
            RegisterAccess r = A(3) ? register_set(&t, (RegisterHandle)A(0), v) : register_set_unsafe(&t, (RegisterHandle)A(0), v);
            out_s(g_fail_hit && (int)r.code == g_fail_code ? "BACKEND-FAILED" : cls(r.code));
            g_fail_code = 0;
            break; }
        case 3: {
            RegisterValue v; memset(&v, 0, sizeof v);
            RegisterAccess r = register_get(&t, (RegisterHandle)A(0), &v);
            out_acc(r);
            if (r.code == REG_ACCESS_SUCCESS) { out_n(type_n(v.type)); out_n(value_bits(&v)); } else { out_s("-"); out_s("-"); }
            break; }
        case 6: {
            size_t nw = (size_t)nargs - 2;
            RegisterAtom *buf = malloc((nw ? nw : 1) * sizeof *buf);      /* exactly the caller's n words */
            for (size_t i = 0; i < nw; i++) buf[i] = (RegisterAtom)A(2 + i);
            RegisterAccess r = register_block_write(&t, (RegisterAddress)A(0), (RegisterOffset)A(1), buf);
            out_acc(r); free(buf);
            break; }
        case 7: {
            size_t n = (size_t)A(1); size_t cap = n < 4096 ? n : 4096;
            RegisterAtom *buf = malloc((cap ? cap : 1) * sizeof *buf);
            for (size_t i = 0; i < cap; i++) buf[i] = 0xEEEE;
            RegisterAccess r = register_block_read(&t, (RegisterAddress)A(0), (RegisterOffset)n, buf);
            out_acc(r);
            if (r.code == REG_ACCESS_SUCCESS) { out_l_begin(); for (size_t i = 0; i < cap; i++) out_l_n(buf[i]); out_l_end(); } else out_s("-");
            free(buf);
            break; }
        case 8: { RegisterAccess r = register_sanitise(&t); out_s(cls(r.code)); break; }
        case 9: {
            struct fe_ctx c; memset(&c, 0, sizeof c);
            c.n = (size_t)nargs - 2; c.script = malloc((c.n ? c.n : 1) * sizeof *c.script);
            for (size_t i = 0; i < c.n; i++) c.script[i] = (int64_t)A(2 + i) - 1;
            RegisterAccess r = register_foreach_in(&t, (RegisterAddress)A(0), (RegisterOffset)A(1), fe_cb, &c);
            out_acc(r); out_l_begin(); for (size_t i = 0; i < c.nh; i++) out_l_n(c.handles[i]); out_l_end();
            free(c.script);
            break; }
        case 12: register_make_bigendian(&t, A(0) != 0); out_s("order"); break;
        case 11:   /* the caller edits the description: register k gets a new address; a new register_init follows */
            if (A(0) < ne) entries[A(0)].address = (RegisterAddress)A(1);
            out_s("edit");
            break;
        default:
            if (A(0) < na && A(1) < g_storelen[A(0)]) g_store[A(0)][A(1)] = (RegisterAtom)A(2);
            out_s("corrupt");
            break;
        }
        /* state dump */
        out_n((t.flags & REG_TF_INITIALISED) != 0);
        out_l_begin(); for (size_t i = 0; i < na; i++) for (size_t j = 0; j < g_storelen[i]; j++) out_l_n(g_store[i][j]); out_l_end();
        out_l_begin(); for (size_t i = 0; i < ne; i++) out_l_n((entries[i].flags & REG_EF_TOUCHED) != 0); out_l_end();
    }
    for (size_t i = 0; i < na; i++) free(g_store[i]);
    free(areas); free(entries);
}
