#include "hval.h"
#include <ufw/crc/crc16-arc.h>

void run_crc(const char *op)
{
    if (!strcmp(op, "crc.bytes")) {
        out_n(ufw_crc16_arc((uint16_t)aN(0), aH(1), aHlen(1)));
    } else if (!strcmp(op, "crc.split")) {
        size_t k = (size_t)aN(2), n = aHlen(1);
        if (k > n) k = n;
        uint16_t c = (uint16_t)aN(0);
        out_n(ufw_crc16_arc(c, aH(1), n));
        uint16_t c1 = ufw_crc16_arc(c, aH(1), k);
        out_n(ufw_crc16_arc(c1, aH(1) + k, n - k));
    } else if (!strcmp(op, "crc.u16")) {
        size_t n = aLlen(1);
        uint16_t *w = malloc(n ? n * sizeof *w : 1);
        for (size_t i = 0; i < n; i++) w[i] = (uint16_t)aLu(1, i);
        out_n(ufw_crc16_arc_u16((uint16_t)aN(0), w, n));
        free(w);
    } else if (!strcmp(op, "crc.buf")) {
        /* the entry points with the fixed initial value: octets, and the same octets as 16-bit words when their number is even */
        out_n(ufw_buffer_crc16_arc(aH(0), aHlen(0)));
        size_t n = aHlen(0) / 2;
        uint16_t *w = malloc(n ? n * sizeof *w : 1);
        memcpy(w, aH(0), 2 * n);
        out_n(ufw_buffer_crc16_arc_u16(w, n));
        free(w);
    } else out_s("unknown-op");
}
