#include "hval.h"
#include <ufw/octet-ring.h>
#include <ufw/ring-buffer.h>
#include <ufw/ring-buffer-iter.h>

RING_BUFFER_API(u16_ring, uint16_t)
RING_BUFFER_ITER_API(u16_ring, uint16_t)
RING_BUFFER(u16_ring, uint16_t)
RING_BUFFER_ITER(u16_ring, uint16_t)
RING_BUFFER_API(u32_ring, uint32_t)
RING_BUFFER_ITER_API(u32_ring, uint32_t)
RING_BUFFER(u32_ring, uint32_t)
RING_BUFFER_ITER(u32_ring, uint32_t)

#define RUN(NAME, TYPE)                                                             \
static void run_##NAME(size_t cap)                                                  \
{                                                                                   \
    TYPE *mem = malloc(cap * sizeof *mem);  /* exact size */                        \
    NAME r; NAME##_init(&r, mem, cap);                                              \
    size_t nops = aLlen(2) / 2;                                                     \
    for (size_t i = 0; i < nops; i++) {                                             \
        uint64_t c = aLu(2, 2 * i), x = aLu(2, 2 * i + 1);                          \
        uint64_t v = 0;                                                             \
        switch (c) {                                                                \
        case 0: NAME##_put(&r, (TYPE)x); break;                                     \
        case 1: v = NAME##_get(&r); break;                                          \
        case 2: NAME##_clear(&r); break;                                            \
        default: NAME##_override_if_full(&r, x != 0); break;                        \
        }                                                                           \
        out_n(v); out_n(NAME##_size(&r)); out_n(NAME##_empty(&r)); out_n(NAME##_full(&r)); \
        for (int m = 0; m < 2; m++) {                                               \
            rb_iter it;                                                             \
            NAME##_iter(&it, &r, m ? RING_BUFFER_ITER_NEW_TO_OLD : RING_BUFFER_ITER_OLD_TO_NEW); \
            out_l_begin();                                                          \
            size_t guard = 0;                                                       \
            while (!rb_iter_done(&it) && guard++ < cap + 4) {                       \
                out_l_n(NAME##_inspect(&r, &it));                                   \
                rb_iter_advance(&it);                                               \
            }                                                                       \
            out_l_end();                                                            \
        }                                                                           \
    }                                                                               \
    free(mem);                                                                      \
}
RUN(octet_ring, uint8_t)
RUN(u16_ring, uint16_t)
RUN(u32_ring, uint32_t)

void run_ring(const char *op)
{
    if (strcmp(op, "ring.hist")) { out_s("unknown-op"); return; }
    size_t cap = (size_t)aN(0);
    if (cap == 0) { out_s("skip"); return; }
    switch (aN(1)) {
    case 8: run_octet_ring(cap); break;
    case 16: run_u16_ring(cap); break;
    default: run_u32_ring(cap); break;
    }
}
