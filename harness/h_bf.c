#include "hval.h"
#include <ufw/binary-format.h>

/* value classes: u = unsigned (uint64 carrier), s = signed, f/d = float/double passed by value as bit patterns */
typedef uint64_t (*ref_fn)(const void *);
#define REF_U(W, T, O) static uint64_t r_u##W##O(const void *p) { return (uint64_t)bf_ref_u##W##O(p); }
#define REF_S(W, T, O) static uint64_t r_s##W##O(const void *p) { return (uint64_t)(int64_t)bf_ref_s##W##O(p); }
#define SET_U(W, T, O) static void *w_u##W##O(void *p, uint64_t v) { return bf_set_u##W##O(p, (T)v); }
#define SET_S(W, T, O) static void *w_s##W##O(void *p, uint64_t v) { return bf_set_s##W##O(p, (T)(int64_t)v); }
#define ALLW(M, O) M(16, uint16_t, O) M(24, uint32_t, O) M(32, uint32_t, O) M(40, uint64_t, O) M(48, uint64_t, O) M(56, uint64_t, O) M(64, uint64_t, O)
#define ALLWS(M, O) M(16, int16_t, O) M(24, int32_t, O) M(32, int32_t, O) M(40, int64_t, O) M(48, int64_t, O) M(56, int64_t, O) M(64, int64_t, O)
ALLW(REF_U, n) ALLW(REF_U, b) ALLW(REF_U, l) ALLWS(REF_S, n) ALLWS(REF_S, b) ALLWS(REF_S, l)
ALLW(SET_U, n) ALLW(SET_U, b) ALLW(SET_U, l) ALLWS(SET_S, n) ALLWS(SET_S, b) ALLWS(SET_S, l)
#define REF_F(O) static uint64_t r_f32##O(const void *p) { float f = bf_ref_f32##O(p); uint32_t u; memcpy(&u, &f, 4); return u; } \
                 static uint64_t r_f64##O(const void *p) { double f = bf_ref_f64##O(p); uint64_t u; memcpy(&u, &f, 8); return u; } \
                 static void *w_f32##O(void *p, uint64_t v) { uint32_t u = (uint32_t)v; float f; memcpy(&f, &u, 4); return bf_set_f32##O(p, f); } \
                 static void *w_f64##O(void *p, uint64_t v) { double f; memcpy(&f, &v, 8); return bf_set_f64##O(p, f); }
REF_F(n) REF_F(b) REF_F(l)

struct rent { const char *name; ref_fn f; bool is_signed; };
struct went { const char *name; void *(*f)(void *, uint64_t); };
#define RENT_U(W, T, O) { "bf_ref_u" #W #O, r_u##W##O, false },
#define RENT_S(W, T, O) { "bf_ref_s" #W #O, r_s##W##O, true },
#define WENT_U(W, T, O) { "bf_set_u" #W #O, w_u##W##O },
#define WENT_S(W, T, O) { "bf_set_s" #W #O, w_s##W##O },
static const struct rent rtab[] = {
    ALLW(RENT_U, n) ALLW(RENT_U, b) ALLW(RENT_U, l) ALLWS(RENT_S, n) ALLWS(RENT_S, b) ALLWS(RENT_S, l)
    { "bf_ref_f32n", r_f32n, false }, { "bf_ref_f32b", r_f32b, false }, { "bf_ref_f32l", r_f32l, false },
    { "bf_ref_f64n", r_f64n, false }, { "bf_ref_f64b", r_f64b, false }, { "bf_ref_f64l", r_f64l, false },
    { NULL, NULL, false } };
static const struct went wtab[] = {
    ALLW(WENT_U, n) ALLW(WENT_U, b) ALLW(WENT_U, l) ALLWS(WENT_S, n) ALLWS(WENT_S, b) ALLWS(WENT_S, l)
    { "bf_set_f32n", w_f32n }, { "bf_set_f32b", w_f32b }, { "bf_set_f32l", w_f32l },
    { "bf_set_f64n", w_f64n }, { "bf_set_f64b", w_f64b }, { "bf_set_f64l", w_f64l },
    { NULL, NULL } };

void run_bf(const char *op)
{
    const char *name = g_args[0].s ? g_args[0].s : "";
    if (!strcmp(op, "bf.self")) {
        /* a check of the TRANSLATED functions of another configuration against their specification, evaluated entirely
           on the model side (the host cannot run the big-endian or the non-builtin code): the expected answer is "agree" */
        out_s("agree");
        return;
    }
    if (!strcmp(op, "bf.ref")) {
        for (const struct rent *e = rtab; e->name; e++)
            if (!strcmp(e->name, name)) {
                /* exact-size heap block holding only the addressed octets would hide neighbours; the case passes
                   the whole memory and the position */
                uint64_t v = e->f(aH(1) + aN(2));
                if (e->is_signed) out_z((int64_t)v); else out_n(v);
                return;
            }
        out_s("no-such-function");
    } else if (!strcmp(op, "bf.set")) {
        for (const struct went *e = wtab; e->name; e++)
            if (!strcmp(e->name, name)) {
                void *end = e->f(aH(1) + aN(2), g_args[3].neg ? (uint64_t)aZ(3) : aN(3));
                out_h(aH(1), aHlen(1)); out_n((uint64_t)((unsigned char *)end - aH(1)));
                return;
            }
        out_s("no-such-function");
    } else if (!strcmp(op, "bf.int")) {
        uint64_t u = g_args[1].neg ? (uint64_t)aZ(1) : aN(1);
        if (!strcmp(name, "bf_swap16")) out_n(bf_swap16((uint16_t)u));
        else if (!strcmp(name, "bf_swap24")) out_n(bf_swap24((uint32_t)u));
        else if (!strcmp(name, "bf_swap32")) out_n(bf_swap32((uint32_t)u));
        else if (!strcmp(name, "bf_swap40")) out_n(bf_swap40(u));
        else if (!strcmp(name, "bf_swap48")) out_n(bf_swap48(u));
        else if (!strcmp(name, "bf_swap56")) out_n(bf_swap56(u));
        else if (!strcmp(name, "bf_swap64")) out_n(bf_swap64(u));
        else if (!strcmp(name, "bf_inrange_u24")) out_n(bf_inrange_u24((uint32_t)u));
        else if (!strcmp(name, "bf_inrange_s24")) out_n(bf_inrange_s24((int32_t)(int64_t)u));
        else if (!strcmp(name, "bf_inrange_u40")) out_n(bf_inrange_u40(u));
        else if (!strcmp(name, "bf_inrange_s40")) out_n(bf_inrange_s40((int64_t)u));
        else if (!strcmp(name, "bf_inrange_u48")) out_n(bf_inrange_u48(u));
        else if (!strcmp(name, "bf_inrange_s48")) out_n(bf_inrange_s48((int64_t)u));
        else if (!strcmp(name, "bf_inrange_u56")) out_n(bf_inrange_u56(u));
        else if (!strcmp(name, "bf_inrange_s56")) out_n(bf_inrange_s56((int64_t)u));
        else out_s("no-such-function");
    } else out_s("unknown-op");
}
