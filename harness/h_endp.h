/* Scripted source/sink drivers (mirror of coq/Model/Endpoints.v).
   Script events: k > 0 Give k; 0 Zero; negative -errno (EINTR/EAGAIN = retry, others hard). */
#ifndef H_ENDP_H
#define H_ENDP_H
#include "hval.h"
#include <errno.h>
#include <ufw/compat/errno.h>
#include <ufw/endpoints.h>

typedef struct {
    const unsigned char *stream; size_t len, pos;
    int64_t *script; size_t nscript, spos;
    uint64_t calls;
} hsrc;

typedef struct {
    unsigned char *got; size_t len, cap;
    int64_t *script; size_t nscript, spos;
    uint64_t calls;
} hsnk;

static int64_t h_pop(int64_t *script, size_t n, size_t *pos)
{
    if (*pos < n) return script[(*pos)++];
    return INT64_MAX;
}

static int h_src_octet(void *drv, void *data)
{
    hsrc *s = drv; s->calls++;
    int64_t e = h_pop(s->script, s->nscript, &s->spos);
    if (e > 0) {
        if (s->pos >= s->len) return -ENODATA;
        *(unsigned char *)data = s->stream[s->pos++];
        return 1;
    }
    return (int)e;
}

static ssize_t h_src_chunk(void *drv, void *data, size_t n)
{
    hsrc *s = drv; s->calls++;
    int64_t e = h_pop(s->script, s->nscript, &s->spos);
    if (e > 0) {
        if (s->pos >= s->len) return -ENODATA;
        size_t m = (uint64_t)e < n ? (size_t)e : n;
        if (m > s->len - s->pos) m = s->len - s->pos;
        memcpy(data, s->stream + s->pos, m);
        s->pos += m;
        return (ssize_t)m;
    }
    return (ssize_t)e;
}

static void h_snk_push(hsnk *k, const unsigned char *p, size_t n)
{
    if (k->len + n > k->cap) { k->cap = (k->len + n) * 2 + 64; k->got = realloc(k->got, k->cap); }
    memcpy(k->got + k->len, p, n); k->len += n;
}

static int h_snk_octet(void *drv, unsigned char c)
{
    hsnk *k = drv; k->calls++;
    int64_t e = h_pop(k->script, k->nscript, &k->spos);
    if (e > 0) { h_snk_push(k, &c, 1); return 1; }
    return (int)e;
}

static ssize_t h_snk_chunk(void *drv, const void *data, size_t n)
{
    hsnk *k = drv; k->calls++;
    int64_t e = h_pop(k->script, k->nscript, &k->spos);
    if (e > 0) {
        size_t m = (uint64_t)e < n ? (size_t)e : n;
        h_snk_push(k, data, m);
        return (ssize_t)m;
    }
    return (ssize_t)e;
}

/* build from arguments: stream = octet-string arg, script = list arg (may be absent) */
static inline void h_src_make(hsrc *s, Source *src, bool octet, const unsigned char *st, size_t n, int argscript)
{
    memset(s, 0, sizeof *s);
    s->stream = st; s->len = n;
    if (argscript >= 0 && argscript < g_nargs) {
        s->nscript = aLlen(argscript);
        s->script = malloc((s->nscript ? s->nscript : 1) * sizeof *s->script);
        for (size_t i = 0; i < s->nscript; i++) s->script[i] = aLz(argscript, i);
    }
    if (octet) octet_source_init(src, h_src_octet, s); else chunk_source_init(src, h_src_chunk, s);
}
static inline void h_snk_make(hsnk *k, Sink *snk, bool octet, int argscript)
{
    memset(k, 0, sizeof *k);
    if (argscript >= 0 && argscript < g_nargs) {
        k->nscript = aLlen(argscript);
        k->script = malloc((k->nscript ? k->nscript : 1) * sizeof *k->script);
        for (size_t i = 0; i < k->nscript; i++) k->script[i] = aLz(argscript, i);
    }
    if (octet) octet_sink_init(snk, h_snk_octet, k); else chunk_sink_init(snk, h_snk_chunk, k);
}
static inline void h_src_free(hsrc *s) { free(s->script); }
static inline void h_snk_free(hsnk *k) { free(k->script); free(k->got); }
#endif
