/* The library's own chunk-style drivers (src/endpoints/buffer.c): a byte buffer as source, a chunk list as source, a byte buffer as
   sink - through the generic loops of endpoints/core.c.  Every buffer lives in an exact-size heap block (ASan sees any overrun). */
#include "hval.h"
#include <errno.h>
#include <ufw/compat/errno.h>
#include <ufw/byte-buffer.h>
#include <ufw/endpoints.h>

#define out_rcx(rc) out_rc((int64_t)(rc))

void run_be(const char *op)
{
    if (!strcmp(op, "be.get")) {
        /* be.get size used offset h:mem n atmost */
        size_t size = (size_t)aN(0);
        if (size == 0 || aHlen(3) != size || aN(1) > size || aN(2) > aN(1)) { out_s("skip"); return; }
        unsigned char *mem = malloc(size); memcpy(mem, aH(3), size);
        ByteBuffer b; if (byte_buffer_set(&b, mem, size, (size_t)aN(1), (size_t)aN(2)) < 0) { out_s("skip"); free(mem); return; }
        Source s; source_from_buffer(&s, &b);
        uint64_t n = aN(4); size_t cap = n < size + 4 ? (size_t)n : size + 4;
        unsigned char *dst = malloc(cap ? cap : 1); memset(dst, 0xEE, cap ? cap : 1);
        size_t before = b.offset;
        ssize_t rc = aN(5) ? source_get_chunk_atmost(&s, dst, (size_t)n) : source_get_chunk(&s, dst, (size_t)n);
        out_rcx(rc); out_n(b.offset - before); out_h(dst, b.offset - before); out_n(b.offset); out_n(b.used);
        free(dst); free(mem);
    } else if (!strcmp(op, "be.chunks")) {
        /* be.chunks l:useds l:offsets h:concatenated-memory active n */
        size_t nc = aLlen(0);
        if (nc == 0 || aLlen(1) != nc) { out_s("skip"); return; }
        size_t tot = 0; for (size_t i = 0; i < nc; i++) { if (aLu(0, i) == 0 || aLu(1, i) > aLu(0, i)) { out_s("skip"); return; } tot += (size_t)aLu(0, i); }
        if (aHlen(2) != tot || aN(3) > nc) { out_s("skip"); return; }
        ByteBuffer *cs = malloc(nc * sizeof *cs); unsigned char **mems = malloc(nc * sizeof *mems);
        size_t at = 0;
        for (size_t i = 0; i < nc; i++) {
            size_t u = (size_t)aLu(0, i);
            mems[i] = malloc(u); memcpy(mems[i], aH(2) + at, u); at += u;
            byte_buffer_set(&cs[i], mems[i], u, u, (size_t)aLu(1, i));
        }
        ByteChunks bc = { .chunks = nc, .active = (size_t)aN(3), .chunk = cs };
        Source s; source_from_chunks(&s, &bc);
        uint64_t n = aN(4); size_t cap = n < tot + 4 ? (size_t)n : tot + 4;
        unsigned char *dst = malloc(cap ? cap : 1); memset(dst, 0xEE, cap ? cap : 1);
        size_t before = 0; for (size_t i = 0; i < nc; i++) before += cs[i].offset;
        ssize_t rc = source_get_chunk(&s, dst, (size_t)n);
        size_t after = 0; for (size_t i = 0; i < nc; i++) after += cs[i].offset;
        out_rcx(rc); out_h(dst, after - before);
        out_l_begin(); for (size_t i = 0; i < nc; i++) out_l_n(cs[i].offset); out_l_end();
        free(dst); for (size_t i = 0; i < nc; i++) free(mems[i]); free(mems); free(cs);
    } else if (!strcmp(op, "be.put")) {
        /* be.put size used offset h:mem h:data n */
        size_t size = (size_t)aN(0);
        if (size == 0 || aHlen(3) != size || aN(1) > size || aN(2) > aN(1)) { out_s("skip"); return; }
        if (aN(5) <= (uint64_t)SSIZE_MAX && aHlen(4) < aN(5)) { out_s("skip"); return; }
        unsigned char *mem = malloc(size); memcpy(mem, aH(3), size);
        ByteBuffer b; if (byte_buffer_set(&b, mem, size, (size_t)aN(1), (size_t)aN(2)) < 0) { out_s("skip"); free(mem); return; }
        Sink k; sink_to_buffer(&k, &b);
        unsigned char *data = malloc(aHlen(4) ? aHlen(4) : 1); memcpy(data, aH(4), aHlen(4));
        ssize_t rc = sink_put_chunk(&k, data, (size_t)aN(5));
        out_rcx(rc); out_n(b.used); out_n(b.offset); out_h(mem, size);
        free(data); free(mem);
    } else if (!strcmp(op, "be.sts")) {
        /* be.sts ssize sused soffset h:smem ksize kused h:kmem n : counted transfer from a buffer source into a buffer sink */
        size_t ss = (size_t)aN(0), ks = (size_t)aN(4);
        if (ss == 0 || ks == 0 || aHlen(3) != ss || aHlen(6) != ks || aN(1) > ss || aN(2) > aN(1) || aN(5) > ks) { out_s("skip"); return; }
        unsigned char *sm = malloc(ss), *km = malloc(ks); memcpy(sm, aH(3), ss); memcpy(km, aH(6), ks);
        ByteBuffer sb, kb; byte_buffer_set(&sb, sm, ss, (size_t)aN(1), (size_t)aN(2)); byte_buffer_set(&kb, km, ks, (size_t)aN(5), 0);
        Source s; Sink k; source_from_buffer(&s, &sb); sink_to_buffer(&k, &kb);
        ssize_t rc = sts_n(&s, &k, (size_t)aN(7));
        out_rcx(rc); out_n(sb.offset); out_n(kb.used); out_h(km, ks);
        free(sm); free(km);
    } else out_s("unknown-op");
}
