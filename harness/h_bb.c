#include "hval.h"
#include <errno.h>
#include <ufw/compat/errno.h>
#include <ufw/byte-buffer.h>

static unsigned char gen_octet(uint64_t s, uint64_t i) { return (unsigned char)((s * 31 + i * 7 + 1) % 256); }

static void obs_state(const ByteBuffer *b, const unsigned char *arena, size_t an)
{
    out_n(b->size); out_n(b->used); out_n(b->offset); out_h(arena, an);
}

void run_bb(const char *op)
{
    if (strcmp(op, "bb.hist")) { out_s("unknown-op"); return; }
    size_t an = aHlen(0);
    unsigned char *arena = malloc(an ? an : 1);       /* exact size: red zones on both sides */
    memcpy(arena, aH(0), an);
    size_t nops = aLlen(4) / 4;
    for (size_t i = 0; i < nops; i++)
        if (aLu(4, 4 * i) >= 7 && aLu(4, 4 * i + 1) > an) { out_s("skip"); free(arena); return; }
    if (aN(1) > an) { out_s("skip"); free(arena); return; }
    ByteBuffer b;
    int rc = byte_buffer_set(&b, arena, (size_t)aN(1), (size_t)aN(2), (size_t)aN(3));
    if (rc < 0) { out_rc(rc); free(arena); return; }
    out_n(0);
    for (size_t i = 0; i < nops; i++) {
        uint64_t code = aLu(4, 4 * i), a = aLu(4, 4 * i + 1), x = aLu(4, 4 * i + 2), c = aLu(4, 4 * i + 3);
        switch (code) {
        case 0: {
            size_t k = a < 512 ? (size_t)a : 512;
            unsigned char *d = malloc(k ? k : 1);
            for (size_t j = 0; j < k; j++) d[j] = gen_octet(x, j);
            rc = byte_buffer_add(&b, d, (size_t)a);
            free(d);
            out_rc(rc); out_h(NULL, 0);
            break; }
        case 1: {
            size_t k = a < an + 8 ? (size_t)a : an + 8;
            unsigned char *d = calloc(k ? k : 1, 1);
            rc = byte_buffer_consume(&b, d, (size_t)a);
            out_rc(rc); out_h(d, rc == 0 ? k : 0);
            free(d);
            break; }
        case 2: {
            size_t k = a < an + 8 ? (size_t)a : an + 8;
            unsigned char *d = calloc(k ? k : 1, 1);
            ssize_t r = byte_buffer_consume_at_most(&b, d, (size_t)a);
            out_rc(r); out_h(d, r > 0 ? (size_t)r : 0);
            free(d);
            break; }
        case 3: rc = byte_buffer_rewind(&b); out_rc(rc); out_h(NULL, 0); break;
        case 4: byte_buffer_clear(&b); out_s("void"); out_h(NULL, 0); break;
        case 5: byte_buffer_reset(&b); out_s("void"); out_h(NULL, 0); break;
        case 6: byte_buffer_repeat(&b); out_s("void"); out_h(NULL, 0); break;
        case 7: /* set-up through the entry point that fits the arguments: use (all filled), space (empty) or the general one */
                if (x == a && c == 0 && (i & 1)) rc = byte_buffer_use(&b, arena, (size_t)a);
                else if (x == 0 && c == 0 && (i & 1)) rc = byte_buffer_space(&b, arena, (size_t)a);
                else rc = byte_buffer_set(&b, arena, (size_t)a, (size_t)x, (size_t)c);
                out_rc(rc); out_h(NULL, 0); break;
        default: rc = byte_buffer_set(&b, NULL, (size_t)a, (size_t)x, (size_t)c); out_rc(rc); out_h(NULL, 0); break;
        }
        obs_state(&b, arena, an);
    }
    free(arena);
}
