/* Token-level values shared by all harness modules (mirrors coq/Base/Val.v). */
#ifndef HVAL_H
#define HVAL_H
#include <stdint.h>
#include <stddef.h>
#include <stdio.h>
#include <stdlib.h>
#include <string.h>
#include <stdbool.h>

typedef struct {
    char kind;              /* 'n' number, 'h' octets, 'l' list, 's' symbol */
    uint64_t n;             /* magnitude for 'n' */
    bool neg;
    unsigned char *h; size_t hlen;          /* 'h' (exact-size heap block) */
    int64_t *l; bool *lneg; uint64_t *lu; size_t llen;   /* 'l' */
    const char *s;
} hval;

#define MAXARGS 64
extern hval g_args[MAXARGS];
extern int g_nargs;

static inline uint64_t aN(int i) { return i < g_nargs ? g_args[i].n : 0; }
static inline int64_t aZ(int i) { return i < g_nargs ? (g_args[i].neg ? (int64_t)(0u - g_args[i].n) : (int64_t)g_args[i].n) : 0; }
static inline unsigned char *aH(int i) { return g_args[i].h; }
static inline size_t aHlen(int i) { return i < g_nargs ? g_args[i].hlen : 0; }
static inline size_t aLlen(int i) { return i < g_nargs ? g_args[i].llen : 0; }
static inline uint64_t aLu(int i, size_t k) { return g_args[i].lu[k]; }
static inline int64_t aLz(int i, size_t k) { return g_args[i].lneg[k] ? (int64_t)(0u - g_args[i].lu[k]) : (int64_t)g_args[i].lu[k]; }

void out_n(uint64_t v);
void out_z(int64_t v);          /* prints like Val.vint: negative with '-', else unsigned */
void out_h(const unsigned char *p, size_t n);
void out_s(const char *s);
void out_l_begin(void); void out_l_n(uint64_t v); void out_l_z(int64_t v); void out_l_end(void);

/* errno -> symbolic class name, shared with the model (Base/Errno.v) */
const char *errname(int e);
void out_rc(int64_t rc);        /* >=0: number; <0: symbolic errno name */
#endif
