/* S-expression reader (src/sx.c): inputs on exact-size heap blocks, with and without terminator; result tree printed
   in preorder; allocation balance taken from the sanitizer's allocator statistics. */
#include "hval.h"
#include <ufw/sx.h>
/* provided by the AddressSanitizer runtime (sanitizer/allocator_interface.h) */
size_t __sanitizer_get_current_allocated_bytes(void);

static const char *stname(enum sx_status s)
{
    switch (s) {
    case SXS_SUCCESS: return "SUCCESS"; case SXS_FOUND_LIST: return "FOUND_LIST"; case SXS_BROKEN_INTEGER: return "BROKEN_INTEGER";
    case SXS_BROKEN_SYMBOL: return "BROKEN_SYMBOL"; case SXS_UNKNOWN_INPUT: return "UNKNOWN_INPUT"; case SXS_UNEXPECTED_END: return "UNEXPECTED_END";
    }
    return "?";
}

static void render(const struct sx_node *n, int depth)
{
    if (n == NULL) { out_s("NULL"); return; }
    if (depth > 4000) { out_s("too-deep"); return; }
    switch (n->type) {
    case SXT_SYMBOL: out_s("s"); out_h((const unsigned char *)n->data.symbol, strlen(n->data.symbol)); break;
    case SXT_INTEGER: out_s("i"); out_n(n->data.u64); break;
    case SXT_EMPTY_LIST: out_s("n"); break;
    case SXT_PAIR: out_s("c"); render(n->data.pair->car, depth + 1); render(n->data.pair->cdr, depth + 1); break;
    default: out_s("bad-node"); break;
    }
}

void run_sx(const char *op)
{
    size_t n = aHlen(0);
    const unsigned char *in = aH(0);
    for (size_t i = 0; i < n; i++) if (in[i] >= 128) { out_s("skip"); return; }
    if (!strcmp(op, "sx.parse")) {
        /* sx.parse h:input mode   (0: NUL-terminated, sx_parse_string; 1: length-delimited exact-size block, sx_parse_stringn) */
        bool delimited = aN(1) != 0;
        if (!delimited && memchr(in, 0, n) != NULL) { out_s("skip"); return; }
        char *buf = malloc(delimited ? n : n + 1);
        if (n) memcpy(buf, in, n);
        if (!delimited) buf[n] = 0;
        size_t b0 = __sanitizer_get_current_allocated_bytes();
        struct sx_parse_result r = delimited ? sx_parse_stringn(buf, n) : sx_parse_string(buf);
        out_s(stname(r.status));
        if (r.status == SXS_SUCCESS) {
            out_n(r.position); render(r.node, 0);
        } else {
            out_s(r.node == NULL ? "no-tree" : "TREE-RETURNED");
        }
        sx_destroy(&r.node);
        size_t b1 = __sanitizer_get_current_allocated_bytes();
        out_s(b1 == b0 ? "balanced" : "LEAK");
        free(buf);
    } else if (!strcmp(op, "sx.tok")) {
        /* sx.tok h:input i   (length-delimited exact-size block) */
        size_t i = (size_t)aN(1);
        if (i > n) { out_s("skip"); return; }
        char *buf = malloc(n);
        if (n) memcpy(buf, in, n);
        struct sx_parse_result r = sx_parse_token(buf, n, i);
        out_s(stname(r.status)); out_n(r.position); render(r.node, 0);
        sx_destroy(&r.node);
        free(buf);
    } else {
        out_s("unknown-op");
    }
}
