#include "h_endp.h"
#include <limits.h>

static void fin3(ssize_t rc, hsnk *k, hsrc *s) { out_rc(rc); out_h(k->got, k->len); out_n(s->pos); }

void run_ep(const char *op)
{
    if (!strcmp(op, "ep.get") || !strcmp(op, "ep.getatmost")) {
        hsrc s; Source src;
        h_src_make(&s, &src, aN(0) != 0, aH(1), aHlen(1), 2);
        uint64_t n = aN(3);
        size_t cap = n < aHlen(1) + 8 ? (size_t)n : aHlen(1) + 8;
        unsigned char *dst = malloc(cap ? cap : 1);
        memset(dst, 0xEE, cap ? cap : 1);
        ssize_t rc = !strcmp(op, "ep.get") ? source_get_chunk(&src, dst, (size_t)n) : source_get_chunk_atmost(&src, dst, (size_t)n);
        out_rc(rc);
        if (rc >= 0) { out_h(dst, (size_t)rc); out_n(s.pos); out_s("-"); }
        else { out_s("-"); if (rc == -EINVAL) { out_s("-"); out_n(s.calls == 0); } else { out_n(s.pos); out_s("-"); } }
        free(dst); h_src_free(&s);
    } else if (!strcmp(op, "ep.put") || !strcmp(op, "ep.putatmost")) {
        hsnk k; Sink snk;
        h_snk_make(&k, &snk, aN(0) != 0, 2);
        ssize_t rc = !strcmp(op, "ep.put") ? sink_put_chunk(&snk, aH(1), (size_t)aN(3)) : sink_put_chunk_atmost(&snk, aH(1), aHlen(1));
        out_rc(rc); out_h(k.got, k.len);
        if (rc == -EINVAL) out_n(k.calls == 0); else out_s("-");
        h_snk_free(&k);
    } else {
        hsrc s; Source src; hsnk k; Sink snk;
        h_src_make(&s, &src, aN(0) != 0, aH(1), aHlen(1), 2);
        h_snk_make(&k, &snk, aN(3) != 0, 4);
        size_t asize = (size_t)aN(5);
        if (!strcmp(op, "ep.cbc")) fin3(sts_cbc(&src, &snk), &k, &s);
        else if (!strcmp(op, "ep.atmost")) fin3(sts_atmost(&src, &snk, (size_t)aN(5)), &k, &s);
        else if (!strcmp(op, "ep.some")) fin3(sts_some(&src, &snk), &k, &s);
        else if (!strcmp(op, "ep.octets")) {
            /* the single-octet calls as they are: asked n times, each result reported (the driver's answer is passed on, zero included) */
            for (uint64_t i = 0; i < aN(5) && i < 16; i++) {
                unsigned char c = 0xEE; int rc = source_get_octet(&src, &c);
                out_rc(rc); if (rc > 0) { out_n(c); out_rc(sink_put_octet(&snk, c)); } else { out_s("-"); out_s("-"); }
            }
            out_h(k.got, k.len); out_n(s.pos);
        }
        else if (!strcmp(op, "ep.ncbc")) fin3(sts_n_cbc(&src, &snk, (size_t)aN(5)), &k, &s);
        else if (!strcmp(op, "ep.draincbc")) fin3(sts_drain_cbc(&src, &snk), &k, &s);
        else if (!strcmp(op, "ep.stsn")) fin3(sts_n(&src, &snk, (size_t)aN(5)), &k, &s);
        else if (!strcmp(op, "ep.stsdrain")) fin3(sts_drain(&src, &snk), &k, &s);
        else {
            unsigned char *mem = malloc(asize ? asize : 1);
            memset(mem, 0xEE, asize ? asize : 1);
            ByteBuffer b;
            if (byte_buffer_space(&b, mem, asize) < 0) { out_s("skip"); free(mem); h_src_free(&s); h_snk_free(&k); return; }
            ssize_t rc;
            if (!strcmp(op, "ep.someaux")) rc = sts_some_aux(&src, &snk, &b);
            else if (!strcmp(op, "ep.atmostaux")) rc = sts_atmost_aux(&src, &snk, &b, (size_t)aN(6));
            else if (!strcmp(op, "ep.naux")) rc = sts_n_aux(&src, &snk, &b, (size_t)aN(6));
            else if (!strcmp(op, "ep.drainaux")) rc = sts_drain_aux(&src, &snk, &b);
            else { out_s("unknown-op"); free(mem); h_src_free(&s); h_snk_free(&k); return; }
            fin3(rc, &k, &s); out_h(mem, asize);
            free(mem);
        }
        h_src_free(&s); h_snk_free(&k);
    }
}
