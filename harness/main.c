/* Correspondence driver for the implementation: reads "id op arg..." lines,
   runs the real ufw code (compiled from /repo's working tree with ASan+UBSan),
   prints "id obs..." lines in the token format of ocaml/driver.ml. */
#include "hval.h"
#include <errno.h>
#include <inttypes.h>

hval g_args[MAXARGS];
int g_nargs;
static char outbuf[1 << 22];
static size_t outlen;
static bool in_list, list_first;

static void put(const char *s) { size_t l = strlen(s); if (outlen + l < sizeof outbuf) { memcpy(outbuf + outlen, s, l); outlen += l; } }
static void sep(void) { put(" "); }
void out_n(uint64_t v) { char b[32]; sep(); snprintf(b, sizeof b, "%" PRIu64, v); put(b); }
void out_z(int64_t v) { char b[32]; sep(); snprintf(b, sizeof b, "%" PRId64, v); put(b); }
void out_h(const unsigned char *p, size_t n) {
    sep(); put("h:");
    for (size_t i = 0; i < n; i++) { char b[4]; snprintf(b, sizeof b, "%02x", p[i]); put(b); }
}
void out_s(const char *s) { sep(); put(s); }
void out_l_begin(void) { sep(); put("l:"); in_list = true; list_first = true; }
void out_l_n(uint64_t v) { char b[32]; if (!list_first) put(","); list_first = false; snprintf(b, sizeof b, "%" PRIu64, v); put(b); }
void out_l_z(int64_t v) { char b[32]; if (!list_first) put(","); list_first = false; snprintf(b, sizeof b, "%" PRId64, v); put(b); }
void out_l_end(void) { in_list = false; }

const char *errname(int e)
{
    switch (e) {
    case EINVAL: return "EINVAL"; case ENOMEM: return "ENOMEM"; case ENODATA: return "ENODATA";
    case EILSEQ: return "EILSEQ"; case EINTR: return "EINTR"; case EAGAIN: return "EAGAIN";
    case EBADMSG: return "EBADMSG"; case EPROTO: return "EPROTO"; case EFAULT: return "EFAULT";
    case EBUSY: return "EBUSY"; case EPIPE: return "EPIPE"; case EIO: return "EIO";
    case ENOENT: return "ENOENT"; case ERANGE: return "ERANGE"; case EOVERFLOW: return "EOVERFLOW";
    case EMSGSIZE: return "EMSGSIZE"; case ENOBUFS: return "ENOBUFS"; case EBADFD: return "EBADFD";
    case EPERM: return "EPERM"; case ENOTSUP: return "ENOTSUP"; case ETIMEDOUT: return "ETIMEDOUT";
    default: { static char b[24]; snprintf(b, sizeof b, "E%d", e); return b; }
    }
}
void out_rc(int64_t rc) { if (rc >= 0) out_n((uint64_t)rc); else out_s(errname((int)-rc)); }

static void free_args(void)
{
    for (int i = 0; i < g_nargs; i++) { free(g_args[i].h); free(g_args[i].lu); free(g_args[i].lneg); }
    memset(g_args, 0, sizeof g_args); g_nargs = 0;
}

static int hexv(int c) { return c <= '9' ? c - '0' : (c | 32) - 'a' + 10; }

static void parse_num(const char *t, uint64_t *u, bool *neg)
{
    *neg = (*t == '-'); if (*neg) t++;
    *u = strtoull(t, NULL, 10);
}

static void parse_tok(char *t, hval *v)
{
    memset(v, 0, sizeof *v);
    if (t[0] == 'h' && t[1] == ':') {
        size_t n = strlen(t + 2) / 2;
        v->kind = 'h'; v->hlen = n; v->h = malloc(n ? n : 1);   /* exact size: ASan red zone right behind */
        if (n == 0) { free(v->h); v->h = malloc(1); }
        for (size_t i = 0; i < n; i++) v->h[i] = (unsigned char)(16 * hexv(t[2 + 2 * i]) + hexv(t[3 + 2 * i]));
    } else if (t[0] == 'l' && t[1] == ':') {
        size_t n = 0; v->kind = 'l';
        if (t[2]) { n = 1; for (char *p = t + 2; *p; p++) if (*p == ',') n++; }
        v->llen = n; v->lu = calloc(n ? n : 1, sizeof *v->lu); v->lneg = calloc(n ? n : 1, sizeof *v->lneg);
        char *p = t + 2;
        for (size_t i = 0; i < n; i++) { parse_num(p, &v->lu[i], &v->lneg[i]); p = strchr(p, ','); if (p) p++; }
    } else if (t[0] == 's' && t[1] == ':') {
        v->kind = 's'; v->s = t + 2;
    } else {
        v->kind = 'n'; parse_num(t, &v->n, &v->neg);
    }
}

void run_crc(const char *op);
void run_vi(const char *op);
void run_bb(const char *op);
void run_ring(const char *op);
void run_slip(const char *op);
void run_bf(const char *op);
void run_ep(const char *op);
void run_be(const char *op);
void run_lenp(const char *op);
void run_ps(const char *op);
void run_reg(const char *op);
void run_rp(const char *op);
void run_sx(const char *op);

struct mod { const char *prefix; void (*run)(const char *); };
static const struct mod mods[] = {
#ifdef H_CRC
    { "crc.", run_crc },
#endif
#ifdef H_VI
    { "vi.", run_vi },
#endif
#ifdef H_BB
    { "bb.", run_bb },
#endif
#ifdef H_RING
    { "ring.", run_ring },
#endif
#ifdef H_SLIP
    { "slip.", run_slip },
#endif
#ifdef H_BF
    { "bf.", run_bf },
#endif
#ifdef H_EP
    { "ep.", run_ep },
#endif
#ifdef H_BE
    { "be.", run_be },
#endif
#ifdef H_LENP
    { "lenp.", run_lenp },
#endif
#ifdef H_PS
    { "ps.", run_ps },
#endif
#ifdef H_REG
    { "reg.", run_reg },
#endif
#ifdef H_RP
    { "rp.", run_rp },
#endif
#ifdef H_SX
    { "sx.", run_sx },
#endif
    { NULL, NULL }
};

int main(void)
{
    static char line[1 << 22];
    while (fgets(line, sizeof line, stdin)) {
        char *save = NULL;
        char *id = strtok_r(line, " \n", &save);
        if (!id) continue;
        char *op = strtok_r(NULL, " \n", &save);
        if (!op) continue;
        g_nargs = 0;
        for (char *t; g_nargs < MAXARGS && (t = strtok_r(NULL, " \n", &save)); g_nargs++)
            parse_tok(t, &g_args[g_nargs]);
        outlen = 0; put(id);
        /* announce the case on stderr so that a sanitizer abort can be attributed */
        fprintf(stderr, "@case %s\n", id);
        bool done = false;
        for (const struct mod *m = mods; m->prefix; m++)
            if (strncmp(op, m->prefix, strlen(m->prefix)) == 0) { m->run(op); done = true; break; }
        if (!done) out_s("unknown-op");
        outbuf[outlen] = 0;
        puts(outbuf); fflush(stdout);
        free_args();
    }
    return 0;
}
