#include "h_endp.h"
#include <ufw/byte-buffer.h>
#include <ufw/variable-length-integer.h>

/* kinds: 0 u32, 1 s32, 2 u64, 3 s64 */
static void out_val(int kind, uint32_t u32, int32_t s32, uint64_t u64, int64_t s64)
{
    switch (kind) {
    case 0: out_n(u32); break;
    case 1: out_z(s32); break;
    case 2: out_n(u64); break;
    default: out_z(s64); break;
    }
}

void run_vi(const char *op)
{
    int kind = (int)aN(0);
    if (!strcmp(op, "vi.enc")) {
        /* vi.enc kind value bufsize used offset : encode into a zeroed exact-size heap buffer */
        size_t size = (size_t)aN(2);
        unsigned char *mem = calloc(size ? size : 1, 1);
        ByteBuffer b;
        if (byte_buffer_set(&b, mem, size, (size_t)aN(3), (size_t)aN(4)) < 0) { out_s("skip"); free(mem); return; }
        int rc; size_t len;
        switch (kind) {
        case 0: rc = varint_encode_u32(&b, (uint32_t)aN(1)); len = varint_u32_length((uint32_t)aN(1)); break;
        case 1: rc = varint_encode_s32(&b, (int32_t)aZ(1)); len = varint_s32_length((int32_t)aZ(1)); break;
        case 2: rc = varint_encode_u64(&b, (uint64_t)aN(1)); len = varint_u64_length((uint64_t)aN(1)); break;
        default: rc = varint_encode_s64(&b, (int64_t)aZ(1)); len = varint_s64_length((int64_t)aZ(1)); break;
        }
        out_rc(rc); out_n(len); out_n(b.used); out_n(b.offset); out_h(mem, size);
        free(mem);
    } else if (!strcmp(op, "vi.dec")) {
        /* vi.dec kind octets offset : the octets are an exact-size heap block, buffer = use(all) */
        size_t n = aHlen(1);
        ByteBuffer b;
        if (byte_buffer_set(&b, aH(1), n, g_nargs > 3 ? (size_t)aN(3) : n, (size_t)aN(2)) < 0) { out_s("skip"); return; }
        uint32_t u32 = 0; int32_t s32 = 0; uint64_t u64 = 0; int64_t s64 = 0; int rc;
        switch (kind) {
        case 0: rc = varint_decode_u32(&b, &u32); break;
        case 1: rc = varint_decode_s32(&b, &s32); break;
        case 2: rc = varint_decode_u64(&b, &u64); break;
        default: rc = varint_decode_s64(&b, &s64); break;
        }
        out_rc(rc);
        if (rc >= 0) out_val(kind, u32, s32, u64, s64); else out_s("-");
        out_n(b.offset);
    } else if (!strcmp(op, "vi.src")) {
        /* vi.src kind octets octetstyle */
        hsrc s; Source src;
        h_src_make(&s, &src, aN(2) != 0, aH(1), aHlen(1), -1);
        uint32_t u32 = 0; int32_t s32 = 0; uint64_t u64 = 0; int64_t s64 = 0; int rc;
        switch (kind) {
        case 0: rc = varint_u32_from_source(&src, &u32); break;
        case 1: rc = varint_s32_from_source(&src, &s32); break;
        case 2: rc = varint_u64_from_source(&src, &u64); break;
        default: rc = varint_s64_from_source(&src, &s64); break;
        }
        out_rc(rc);
        if (rc >= 0) out_val(kind, u32, s32, u64, s64); else out_s("-");
        out_n(s.pos);
        h_src_free(&s);
    } else if (!strcmp(op, "vi.sink")) {
        /* vi.sink kind value octetstyle */
        hsnk k; Sink snk;
        h_snk_make(&k, &snk, aN(2) != 0, -1);
        int rc;
        switch (kind) {
        case 0: rc = varint_u32_to_sink(&snk, (uint32_t)aN(1)); break;
        case 1: rc = varint_s32_to_sink(&snk, (int32_t)aZ(1)); break;
        case 2: rc = varint_u64_to_sink(&snk, (uint64_t)aN(1)); break;
        default: rc = varint_s64_to_sink(&snk, (int64_t)aZ(1)); break;
        }
        out_rc(rc); out_h(k.got, k.len);
        h_snk_free(&k);
    } else out_s("unknown-op");
}
