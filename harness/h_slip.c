#include "h_endp.h"
#include <ufw/rfc1055.h>

void run_slip(const char *op)
{
    if (!strcmp(op, "slip.dec")) {
        /* slip.dec sof state stream srcscript snkscript srcoctet snkoctet ncalls */
        RFC1055Context ctx;
        rfc1055_context_init(&ctx, aN(0) ? RFC1055_WITH_SOF : RFC1055_DEFAULT);
        ctx.state = aN(1) == 0 ? RFC1055_SEARCH_FOR_START : aN(1) == 1 ? RFC1055_SEARCH_FOR_END : RFC1055_NORMAL;
        hsrc s; Source src; hsnk k; Sink snk;
        h_src_make(&s, &src, aN(5) != 0, aH(2), aHlen(2), 3);
        h_snk_make(&k, &snk, aN(6) != 0, 4);
        uint64_t n = aN(7);
        for (uint64_t i = 0; i < n; i++) {
            size_t before = k.len;
            int rc = rfc1055_decode(&ctx, &src, &snk);
            out_rc(rc); out_h(k.got + before, k.len - before); out_n(s.pos);
            out_n(ctx.state == RFC1055_SEARCH_FOR_START ? 0 : ctx.state == RFC1055_SEARCH_FOR_END ? 1 : 2);
            if (rc == -ENODATA) break;
        }
        h_src_free(&s); h_snk_free(&k);
    } else if (!strcmp(op, "slip.enc")) {
        /* slip.enc sof payload srcscript snkscript srcoctet snkoctet */
        RFC1055Context ctx;
        rfc1055_context_init(&ctx, aN(0) ? RFC1055_WITH_SOF : RFC1055_DEFAULT);
        hsrc s; Source src; hsnk k; Sink snk;
        h_src_make(&s, &src, aN(4) != 0, aH(1), aHlen(1), 2);
        h_snk_make(&k, &snk, aN(5) != 0, 3);
        int rc = rfc1055_encode(&ctx, &src, &snk);
        out_rc(rc); out_h(k.got, k.len);
        h_src_free(&s); h_snk_free(&k);
    } else if (!strcmp(op, "slip.trace")) {
        /* slip.trace sof state stream : plain endpoints, decode until the stream is exhausted */
        RFC1055Context ctx;
        rfc1055_context_init(&ctx, aN(0) ? RFC1055_WITH_SOF : RFC1055_DEFAULT);
        ctx.state = aN(1) == 0 ? RFC1055_SEARCH_FOR_START : aN(1) == 1 ? RFC1055_SEARCH_FOR_END : RFC1055_NORMAL;
        hsrc s; Source src; hsnk k; Sink snk;
        h_src_make(&s, &src, true, aH(2), aHlen(2), -1);
        h_snk_make(&k, &snk, true, -1);
        for (size_t guard = 0; guard < aHlen(2) + 2; guard++) {
            size_t before = k.len;
            int rc = rfc1055_decode(&ctx, &src, &snk);
            out_rc(rc); out_h(k.got + before, k.len - before);
            if (rc == -ENODATA) break;
        }
        h_src_free(&s); h_snk_free(&k);
    } else if (!strcmp(op, "slip.spec")) {
        /* slip.spec sof payload : plain encode, compared with the specification of the encoding;
           also checks the RFC1055_WORST_CASE macro bound on the implementation's own output */
        RFC1055Context ctx;
        rfc1055_context_init(&ctx, aN(0) ? RFC1055_WITH_SOF : RFC1055_DEFAULT);
        hsrc s; Source src; hsnk k; Sink snk;
        h_src_make(&s, &src, true, aH(1), aHlen(1), -1);
        h_snk_make(&k, &snk, false, -1);
        int rc = rfc1055_encode(&ctx, &src, &snk);
        size_t worst = aN(0) ? RFC1055_WORST_WITHSOF(aHlen(1)) : RFC1055_WORST_CLASSIC(aHlen(1));
        if (rc < 0) out_rc(rc);
        else if (k.len > worst) out_s("exceeds-worst-case");
        else out_h(k.got, k.len);
        h_src_free(&s); h_snk_free(&k);
    } else out_s("unknown-op");
}
