/* Register protocol (src/register-protocol.c): emitters, receiver, processing against a scripted memory backend
   and a scripted, ledger-keeping block allocator that hands out exact-size heap blocks (so that ASan sees every
   access outside the block). */
#include "h_endp.h"
#include <ufw/allocator.h>
#include <ufw/register-protocol.h>

/* ---- allocator ---- */
typedef struct {
    int64_t *script; size_t nscript, spos;     /* 0 = fail, otherwise succeed; exhausted = succeed */
    size_t blocksize;
    void *live[64]; size_t nlive;
    uint64_t allocs, frees, bad_frees;
} halloc;

static int ha_alloc(void *drv, void **m)
{
    halloc *a = drv;
    int64_t e = a->spos < a->nscript ? a->script[a->spos++] : 1;
    if (e == 0) { *m = NULL; return -ENOMEM; }
    *m = malloc(a->blocksize);
    memset(*m, 0xa5, a->blocksize);
    if (a->nlive < 64) a->live[a->nlive++] = *m;
    a->allocs++;
    return 0;
}
static void ha_free(void *drv, void *m)
{
    halloc *a = drv;
    for (size_t i = 0; i < a->nlive; i++)
        if (a->live[i] == m) { a->live[i] = a->live[--a->nlive]; a->frees++; free(m); return; }
    a->bad_frees++;
}
static void ha_make(halloc *a, BlockAllocator *ba, size_t bs, int argscript)
{
    memset(a, 0, sizeof *a);
    a->blocksize = bs;
    if (argscript >= 0 && argscript < g_nargs) {
        a->nscript = aLlen(argscript);
        a->script = malloc((a->nscript ? a->nscript : 1) * sizeof *a->script);
        for (size_t i = 0; i < a->nscript; i++) a->script[i] = aLz(argscript, i);
    }
    ba->type = UFW_ALLOC_SLAB; ba->blocksize = bs; ba->driver = a; ba->alloc.slab = ha_alloc; ba->free = ha_free;
}
static void ha_done(halloc *a)
{
    for (size_t i = 0; i < a->nlive; i++) free(a->live[i]);
    free(a->script);
}

/* ---- memory backend ---- */
static struct {
    int arg; size_t pos;        /* verdict script: triples (status, address, seed) */
    bool mem16;
} g_be;

static void be_verdict(uint64_t *status, uint64_t *addr, uint64_t *seed)
{
    *status = 0; *addr = 0; *seed = 0;
    if (g_be.arg >= 0 && 3 * g_be.pos + 2 < aLlen(g_be.arg)) {
        *status = aLu(g_be.arg, 3 * g_be.pos); *addr = aLu(g_be.arg, 3 * g_be.pos + 1); *seed = aLu(g_be.arg, 3 * g_be.pos + 2);
    }
    g_be.pos++;
}
static RPBlockAccess be_read(uint32_t address, size_t bsize, unsigned char *buf, size_t unit)
{
    uint64_t st, ad, seed; be_verdict(&st, &ad, &seed);
    out_s("R"); out_n(address); out_n(bsize);
    for (size_t j = 0; j < bsize * unit; j++) buf[j] = (unsigned char)(seed + 13u * j);
    RPBlockAccess rv = { .status = (RPResponse)st, .address = (uint32_t)ad };
    return rv;
}
static RPBlockAccess be_write(uint32_t address, size_t bsize, const unsigned char *buf, size_t unit)
{
    uint64_t st, ad, seed; be_verdict(&st, &ad, &seed);
    out_s("W"); out_n(address); out_n(bsize); out_h(buf, bsize * unit);
    RPBlockAccess rv = { .status = (RPResponse)st, .address = (uint32_t)ad };
    return rv;
}
static RPBlockAccess be_read8(uint32_t a, size_t n, uint8_t *b) { return be_read(a, n, b, 1); }
static RPBlockAccess be_write8(uint32_t a, size_t n, const uint8_t *b) { return be_write(a, n, b, 1); }
static RPBlockAccess be_read16(uint32_t a, size_t n, uint16_t *b) { return be_read(a, n, (unsigned char *)b, 2); }
static RPBlockAccess be_write16(uint32_t a, size_t n, const uint16_t *b) { return be_write(a, n, (const unsigned char *)b, 2); }

static void rp_setup(RegP *p, bool serial, bool mem16, Source src, Sink snk, BlockAllocator *ba)
{
    regp_init(p);
    if (mem16) regp_use_memory16(p, be_read16, be_write16); else regp_use_memory8(p, be_read8, be_write8);
    regp_use_channel(p, serial ? RP_EP_SERIAL : RP_EP_TCP, src, snk);
    regp_use_allocator(p, ba);
}

static void out_frame(const RPMaybeFrame *mf)
{
    if (mf->frame != NULL && (mf->error.id == 0 || mf->error.id == EPROTO || mf->error.id == EFAULT)) {
        const RPFrame *f = mf->frame;
        out_s("F"); out_n(f->header.type); out_n(f->header.options); out_n(f->header.meta.raw);
        out_n(f->header.sequence); out_n(f->header.address); out_n(f->header.blocksize);
        out_h(f->payload.data, f->payload.size);
    } else {
        out_s("-");
    }
}

/* one receive/process/free round; prints: rc errid frame | backend calls | prc reply */
/* one RPMaybeFrame per session, reused from round to round like a caller's receive loop does: what a failing call leaves
   in it is part of what the caller sees */
static RPMaybeFrame g_mf;

static void rp_round(RegP *p, hsnk *sk, halloc *ha)
{
#define mf g_mf
    size_t before = sk->len;
    int rc = regp_recv(p, &mf);
    out_rc(rc < 0 ? rc : 0);
    if (rc < 0) {
        /* channel error: nothing is handed out - no error id, no frame (a pointer left over from an earlier round would be
           processed and released a second time by the caller's loop) */
        if (mf.error.id) out_s(errname(mf.error.id)); else out_s("-");
        out_s(mf.frame == NULL ? "-" : "STALE-FRAME"); out_s("|"); out_s("|"); out_n(0);
    } else {
        if (mf.error.id) out_s(errname(mf.error.id)); else out_n(0);
        out_frame(&mf);
        out_s("|");
        int prc = regp_process(p, &mf);
        out_s("|");
        out_rc(prc < 0 ? prc : 0);
        regp_free(p, mf.frame);
    }
    out_h(sk->got + before, sk->len - before);
    out_n(ha->allocs); out_n(ha->frees); out_n(ha->bad_frees);
#undef mf
}

static unsigned char g_xfer[64]; static size_t g_xfer_size;
static ByteBuffer lend_xfer(Source *s)
{
    (void)s; ByteBuffer b; byte_buffer_use(&b, g_xfer, g_xfer_size); return b;
}

void run_rp(const char *op)
{
    if (!strcmp(op, "rp.serve") || !strcmp(op, "rp.corrupt")) {
        /* rp.serve   serial mem16 soct blocksize l:allocscript h:stream l:verdicts
           rp.corrupt serial mem16 soct blocksize l:bits        h:raw    l:verdicts
             (the raw frame with the listed bits flipped - bit i is bit i%8, counted from the least significant, of
              octet i/8 - is framed for the transport and served) */
        bool serial = aN(0) != 0, mem16 = aN(1) != 0;
        bool corrupt = !strcmp(op, "rp.corrupt");
        uint64_t bs = aN(3);
        if (bs <= sizeof(RPFrame) || bs > (1u << 20)) { out_s("skip"); return; }
        unsigned char *stream = aH(5); size_t slen = aHlen(5);
        unsigned char *built = NULL;
        if (corrupt) {
            for (size_t i = 0; i < aLlen(4); i++) if (aLu(4, i) >= 8 * slen) { out_s("skip"); return; }
            unsigned char *raw = malloc(slen ? slen : 1); memcpy(raw, stream, slen);
            for (size_t i = 0; i < aLlen(4); i++) raw[aLu(4, i) / 8] ^= (unsigned char)(1u << (aLu(4, i) % 8));
            built = malloc(2 * slen + 16); size_t n = 0;
            if (serial) {
                for (size_t i = 0; i < slen; i++) {
                    if (raw[i] == 0xc0) { built[n++] = 0xdb; built[n++] = 0xdc; }
                    else if (raw[i] == 0xdb) { built[n++] = 0xdb; built[n++] = 0xdd; }
                    else built[n++] = raw[i];
                }
                built[n++] = 0xc0;
            } else {
                size_t v = slen;
                do { unsigned char d = v & 0x7f; v >>= 7; built[n++] = d | (v ? 0x80 : 0); } while (v);
                memcpy(built + n, raw, slen); n += slen;
            }
            free(raw); stream = built; slen = n;
        }
        /* soct: 0 chunk-style source, 1 octet-style source, 2 / 3 chunk-style source that lends a transfer buffer of 5 / 64 octets
           through the getbuffer extension (source-to-sink plumbing then hands the frame to the receive sink in chunks) */
        hsrc ss; Source src; h_src_make(&ss, &src, aN(2) == 1, stream, slen, -1);
        if (aN(2) >= 2) { g_xfer_size = aN(2) == 2 ? 5 : 64; src.ext.getbuffer = lend_xfer; }
        hsnk sk; Sink snk; h_snk_make(&sk, &snk, false, -1);
        halloc ha; BlockAllocator ba; ha_make(&ha, &ba, (size_t)bs, corrupt ? -1 : 4);
        g_be.arg = 6; g_be.pos = 0; g_be.mem16 = mem16;
        RegP p; rp_setup(&p, serial, mem16, src, snk, &ba);
        memset(&g_mf, 0, sizeof g_mf);
        int rounds = 0;
        while (ss.pos < ss.len && rounds < 64) {
            out_s("#");
            rp_round(&p, &sk, &ha);
            rounds++;
        }
        out_s("#"); out_n(ha.nlive);
        ha_done(&ha); h_src_free(&ss); h_snk_free(&sk); free(built);
    } else if (!strcmp(op, "rp.emit")) {
        /* serial mem16 seq kind ftype fseq addr n val h:payload */
        bool serial = (aN(0) & 1) != 0, reattach = (aN(0) & 2) != 0, mem16 = aN(1) != 0;
        uint64_t kind = aN(3), n = aN(7);
        size_t plen = aHlen(9);
        size_t unit = (kind == 3 || (kind == 4 && mem16)) ? 2 : 1;
        if ((kind == 2 || kind == 3 || kind == 4) && plen != n * unit) { out_s("skip"); return; }
        if (n >= (1ull << 32) || kind > 30 || (kind > 4 && kind < 11) || (kind > 21 && kind < 30)) { out_s("skip"); return; }
        hsnk sk; Sink snk; h_snk_make(&sk, &snk, false, -1);
        BlockAllocator none; halloc hn; ha_make(&hn, &none, 128, -1);
        RegP p; rp_setup(&p, serial, mem16, source_empty, snk, &none);
        p.session.sequence = (uint16_t)aN(2);
        if (reattach) {
            /* mid-life reconfiguration with the same arguments: none of these calls starts a new session */
            regp_use_channel(&p, serial ? RP_EP_SERIAL : RP_EP_TCP, source_empty, snk);
            if (mem16) regp_use_memory16(&p, be_read16, be_write16); else regp_use_memory8(&p, be_read8, be_write8);
            regp_use_allocator(&p, &none);
        }
        RPFrame f; memset(&f, 0, sizeof f);
        f.header.type = (RPFrameType)aN(4); f.header.sequence = (uint16_t)aN(5); f.header.address = (uint32_t)aN(6);
        uint32_t addr = (uint32_t)aN(6), val = (uint32_t)aN(8);
        /* exact-size, suitably aligned copy of the payload */
        uint16_t *pl = malloc(plen ? plen : 1); memcpy(pl, aH(9), plen);
        int rc = 0;
        switch (kind) {
        case 0: rc = regp_req_read8(&p, addr, (size_t)n); break;
        case 1: rc = regp_req_read16(&p, addr, (size_t)n); break;
        case 2: rc = regp_req_write8(&p, addr, (size_t)n, (const uint8_t *)pl); break;
        case 3: rc = regp_req_write16(&p, addr, (size_t)n, pl); break;
        case 4: rc = regp_resp_ack(&p, &f, plen ? pl : NULL, (size_t)n); break;
        case 11: rc = regp_resp_ewordsize(&p, &f); break;
        case 12: rc = regp_resp_epayloadcrc(&p, &f); break;
        case 13: rc = regp_resp_epayloadsize(&p, &f); break;
        case 14: rc = regp_resp_erxoverflow(&p, &f, val); break;
        case 15: rc = regp_resp_etxoverflow(&p, &f, val); break;
        case 16: rc = regp_resp_ebusy(&p, &f); break;
        case 17: rc = regp_resp_eunmapped(&p, &f, val); break;
        case 18: rc = regp_resp_eaccess(&p, &f, val); break;
        case 19: rc = regp_resp_erange(&p, &f, val); break;
        case 20: rc = regp_resp_einvalid(&p, &f, val); break;
        case 21: rc = regp_resp_eio(&p, &f); break;
        case 30: rc = regp_resp_meta(&p, (uint_least8_t)val); break;
        }
        out_rc(rc < 0 ? rc : 0); out_n(p.session.sequence); out_h(sk.got, sk.len);
        /* the peer: the same transport; receives what was emitted */
        hsrc ss; Source src; h_src_make(&ss, &src, false, sk.got, sk.len, -1);
        hsnk sk2; Sink snk2; h_snk_make(&sk2, &snk2, false, -1);
        halloc ha; BlockAllocator ba; ha_make(&ha, &ba, sizeof(RPFrame) + sk.len + 32, -1);
        RegP q; rp_setup(&q, serial, mem16, src, snk2, &ba);
        RPMaybeFrame mf;
        int rrc = regp_recv(&q, &mf);
        out_rc(rrc < 0 ? rrc : 0);
        if (rrc >= 0) {
            if (mf.error.id) out_s(errname(mf.error.id)); else out_n(0);
            out_frame(&mf);
            regp_free(&q, mf.frame);
        }
        out_h(sk2.got, sk2.len); out_n(ss.len - ss.pos); out_n(ha.nlive);
        ha_done(&ha); ha_done(&hn); h_src_free(&ss); h_snk_free(&sk2); h_snk_free(&sk); free(pl);
    } else {
        out_s("unknown-op");
    }
}
