#include "h_endp.h"
#include <ufw/length-prefix.h>

static LengthPrefixKind lk(uint64_t n) { return (LengthPrefixKind)(n > 5 ? 5 : n); }
static uint64_t kmax(uint64_t k) { return k == 0 ? (uint64_t)INT64_MAX : k == 1 ? 255u : (k == 2 || k == 4) ? 65535u : 4294967295u; }

static bool bb_ok(size_t memlen, uint64_t size, uint64_t used, uint64_t off)
{ return off <= used && used <= size && size <= memlen && size != 0; }

/* chunk list from one memory block + triples */
static ByteBuffer *mk_chunks(int amem, int atr, size_t *n, unsigned char **copy, bool *ok)
{
    size_t cnt = aLlen(atr) / 3; *n = cnt; *ok = true;
    size_t total = aHlen(amem);
    *copy = malloc(total ? total : 1); memcpy(*copy, aH(amem), total);
    ByteBuffer *cs = calloc(cnt ? cnt : 1, sizeof *cs);
    size_t pos = 0;
    for (size_t i = 0; i < cnt; i++) {
        uint64_t sz = aLu(atr, 3 * i), us = aLu(atr, 3 * i + 1), off = aLu(atr, 3 * i + 2);
        if (pos + sz > total || !bb_ok(sz, sz, us, off)) { *ok = false; break; }
        cs[i].data = *copy + pos; cs[i].size = sz; cs[i].used = us; cs[i].offset = off;
        pos += sz;
    }
    return cs;
}

void run_lenp(const char *op)
{
    LengthPrefixKind k = lk(aN(0));
    if (!strcmp(op, "lenp.m2s")) {
        uint64_t n = aN(4);
        if (n <= kmax(aN(0)) && n <= (uint64_t)INT64_MAX - 9 && aHlen(3) < n) { out_s("skip"); return; }
        hsnk sk; Sink snk; h_snk_make(&sk, &snk, aN(1) != 0, 2);
        ssize_t rc = flenp_memory_to_sink(k, &snk, aH(3), (size_t)n);
        out_rc(rc); out_h(sk.got, sk.len); h_snk_free(&sk);
    } else if (!strcmp(op, "lenp.b2s") || !strcmp(op, "lenp.b2sn")) {
        if (!bb_ok(aHlen(3), aN(4), aN(5), aN(6))) { out_s("skip"); return; }
        hsnk sk; Sink snk; h_snk_make(&sk, &snk, aN(1) != 0, 2);
        ByteBuffer b = { .data = aH(3), .size = aN(4), .used = aN(5), .offset = aN(6) };
        if (!strcmp(op, "lenp.b2s")) {
            ssize_t rc = flenp_buffer_to_sink(k, &snk, &b);
            out_rc(rc); out_h(sk.got, sk.len); out_n(b.offset);
        } else {
            ssize_t rc = flenp_buffer_to_sink_n(k, &snk, &b, (size_t)aN(7));
            out_rc(rc); out_h(sk.got, sk.len); if (rc >= 0) out_n(b.offset); else out_s("-");
        }
        h_snk_free(&sk);
    } else if (!strcmp(op, "lenp.c2s")) {
        size_t cnt; unsigned char *copy; bool ok;
        ByteBuffer *cs = mk_chunks(4, 5, &cnt, &copy, &ok);
        if (!ok) { out_s("skip"); free(cs); free(copy); return; }
        hsnk sk; Sink snk; h_snk_make(&sk, &snk, aN(1) != 0, 2);
        ByteChunks bc = { .chunks = cnt, .active = (size_t)aN(3), .chunk = cs };
        ssize_t rc = flenp_chunks_to_sink(k, &snk, &bc);
        out_rc(rc); out_h(sk.got, sk.len);
        h_snk_free(&sk); free(cs); free(copy);
    } else if (!strcmp(op, "lenp.menc")) {
        uint64_t n = aN(2);
        if (n <= kmax(aN(0)) && n <= (uint64_t)INT64_MAX && aHlen(1) < n) { out_s("skip"); return; }
        LengthPrefixBuffer lpb; memset(&lpb, 0, sizeof lpb);
        int rc = flenp_memory_encode(k, &lpb, aH(1), (size_t)n);
        out_rc(rc);
        if (rc < 0) { out_s("-"); out_s("-"); }
        else { out_h(lpb.prefix.data + lpb.prefix.offset, lpb.prefix.used - lpb.prefix.offset);
               out_h(lpb.payload.data + lpb.payload.offset, lpb.payload.used - lpb.payload.offset); }
    } else if (!strcmp(op, "lenp.benc") || !strcmp(op, "lenp.bencn")) {
        if (!bb_ok(aHlen(1), aN(2), aN(3), aN(4))) { out_s("skip"); return; }
        ByteBuffer b = { .data = aH(1), .size = aN(2), .used = aN(3), .offset = aN(4) };
        LengthPrefixBuffer lpb; memset(&lpb, 0, sizeof lpb);
        bool n_variant = !strcmp(op, "lenp.bencn");
        int rc = n_variant ? flenp_buffer_encode_n(k, &lpb, &b, (size_t)aN(5)) : flenp_buffer_encode(k, &lpb, &b);
        out_rc(rc);
        if (rc < 0) { out_s("-"); out_s("-"); if (n_variant) out_s("-"); }
        else { out_h(lpb.prefix.data + lpb.prefix.offset, lpb.prefix.used - lpb.prefix.offset);
               out_h(lpb.payload.data + lpb.payload.offset, lpb.payload.used - lpb.payload.offset);
               if (n_variant) out_n(b.offset); }
    } else if (!strcmp(op, "lenp.cuse")) {
        size_t cnt; unsigned char *copy; bool ok;
        ByteBuffer *cs = mk_chunks(2, 3, &cnt, &copy, &ok);
        if (!ok) { out_s("skip"); free(cs); free(copy); return; }
        LengthPrefixChunks lpc; memset(&lpc, 0, sizeof lpc);
        lpc.payload.chunks = cnt; lpc.payload.active = (size_t)aN(1); lpc.payload.chunk = cs;
        int rc = flenp_chunks_use(k, &lpc);
        out_rc(rc);
        if (rc < 0) out_s("-"); else out_h(lpc.prefix.data + lpc.prefix.offset, lpc.prefix.used - lpc.prefix.offset);
        free(cs); free(copy);
    } else if (!strcmp(op, "lenp.mfs")) {
        hsrc s; Source src; h_src_make(&s, &src, aN(1) != 0, aH(2), aHlen(2), 3);
        size_t size = (size_t)aN(4);
        uint64_t count = aN(5);
        for (uint64_t i = 0; i < count; i++) {
            unsigned char *dst = malloc(size ? size : 1);   /* exact capacity */
            ssize_t rc = flenp_memory_from_source(k, &src, dst, size);
            out_rc(rc);
            if (rc >= 0) { out_h(dst, (size_t)rc); out_n(s.pos); } else { out_s("-"); out_s("-"); }
            free(dst);
            if (rc < 0) break;
        }
        h_src_free(&s);
    } else if (!strcmp(op, "lenp.bfs")) {
        if (!bb_ok(aHlen(4), aN(5), aN(6), aN(7))) { out_s("skip"); return; }
        hsrc s; Source src; h_src_make(&s, &src, aN(1) != 0, aH(2), aHlen(2), 3);
        ByteBuffer b = { .data = aH(4), .size = aN(5), .used = aN(6), .offset = aN(7) };
        size_t used0 = b.used;
        ssize_t rc = flenp_buffer_from_source(k, &src, &b);
        out_rc(rc); out_n(b.used); out_n(b.offset);
        if (rc >= 0) out_h(aH(4), aHlen(4)); else out_h(aH(4), used0);
        h_src_free(&s);
    } else if (!strcmp(op, "lenp.d2s")) {
        hsrc s; Source src; h_src_make(&s, &src, aN(1) != 0, aH(2), aHlen(2), 3);
        hsnk sk; Sink snk; h_snk_make(&sk, &snk, aN(4) != 0, 5);
        ssize_t rc = flenp_decode_source_to_sink(k, &src, &snk);
        out_rc(rc); out_h(sk.got, sk.len); if (rc >= 0) out_n(s.pos); else out_s("-");
        h_src_free(&s); h_snk_free(&sk);
    } else out_s("unknown-op");
}
