#include "hval.h"
#include <ufw/persistent-storage.h>
#include <ufw/crc/crc16-arc.h>

static uint64_t g_base; static unsigned char *g_img; static size_t g_len;
static int64_t *g_rd, *g_wr; static size_t g_nrd, g_nwr, g_prd, g_pwr;
static uint64_t g_lo, g_hi; static bool g_inreg; static uint64_t g_nacc;

static size_t granted(int64_t *scr, size_t n, size_t *pos, size_t want)
{
    if (*pos >= n) return want;
    int64_t e = scr[(*pos)++];
    if (e < 0) return want;
    return (uint64_t)e < want ? (size_t)e : want;
}
static void note(uint32_t addr, size_t n)
{
    g_nacc++;
    if (!((uint64_t)addr >= g_lo && (uint64_t)addr + n <= g_hi)) g_inreg = false;
}
static size_t med_read(void *dst, uint32_t addr, size_t n)
{
    note(addr, n);
    size_t g = granted(g_rd, g_nrd, &g_prd, n);
    for (size_t i = 0; i < g; i++) {
        uint32_t a = addr + (uint32_t)i;
        ((unsigned char *)dst)[i] = (a >= g_base && (uint64_t)a < g_base + g_len) ? g_img[a - g_base] : 238;
    }
    return g;
}
static size_t med_write(uint32_t addr, const void *src, size_t n)
{
    note(addr, n);
    size_t g = granted(g_wr, g_nwr, &g_pwr, n);
    for (size_t i = 0; i < g; i++) {
        uint32_t a = addr + (uint32_t)i;
        if (a >= g_base && (uint64_t)a < g_base + g_len) g_img[a - g_base] = ((const unsigned char *)src)[i];
    }
    return g;
}
static uint16_t c_crc16(const unsigned char *d, size_t n, uint16_t init) { return ufw_crc16_arc(init, d, n); }
static uint32_t c_sum32(const unsigned char *d, size_t n, uint32_t s) { for (size_t i = 0; i < n; i++) s = s * 31u + d[i] + 1u; return s; }
static unsigned char gen_octet(uint64_t s, uint64_t i) { return (unsigned char)((s * 31 + i * 7 + 1) % 256); }
static const char *accname(PersistentAccess a)
{
    switch (a) { case PERSISTENT_ACCESS_SUCCESS: return "SUCCESS"; case PERSISTENT_ACCESS_INVALID_DATA: return "INVALID_DATA";
    case PERSISTENT_ACCESS_IO_ERROR: return "IO_ERROR"; default: return "ADDRESS_OUT_OF_RANGE"; }
}

void run_ps(const char *op)
{
    if (strcmp(op, "ps.run")) { out_s("unknown-op"); return; }
    g_base = aN(0); g_len = aHlen(1); g_img = malloc(g_len ? g_len : 1); memcpy(g_img, aH(1), g_len);
    uint64_t ckind = aN(3); size_t dsize = (size_t)aN(5); int64_t bs = aZ(6);
    g_nrd = aLlen(7); g_nwr = aLlen(8); g_prd = g_pwr = 0;
    g_rd = malloc((g_nrd ? g_nrd : 1) * sizeof *g_rd); g_wr = malloc((g_nwr ? g_nwr : 1) * sizeof *g_wr);
    for (size_t i = 0; i < g_nrd; i++) g_rd[i] = aLz(7, i);
    for (size_t i = 0; i < g_nwr; i++) g_wr[i] = aLz(8, i);
    PersistentStorage st;
    persistent_init(&st, dsize, med_read, med_write);
    if (ckind == 1) persistent_sum16(&st, c_crc16, (uint16_t)aN(4));
    else if (ckind == 2) persistent_sum32(&st, c_sum32, (uint32_t)aN(4));
    else if (aN(4) != 0) persistent_sum16(&st, st.checksum.process.c16, (uint16_t)aN(4));
    persistent_place(&st, (uint32_t)aN(2));
    unsigned char *aux = NULL;
    if (bs >= 0) { aux = malloc(bs ? (size_t)bs : 1); persistent_buffer(&st, aux, (size_t)bs); }
    g_lo = aN(2); g_hi = aN(2) + (ckind == 2 ? 4 : 2) + dsize; g_inreg = true; g_nacc = 0;
    size_t nops = aLlen(9) / 4;
    for (size_t i = 0; i < nops; i++) {
        uint64_t code = aLu(9, 4 * i), a = aLu(9, 4 * i + 1), b = aLu(9, 4 * i + 2), c = aLu(9, 4 * i + 3);
        uint64_t before = g_nacc; g_inreg = true;   /* per operation: the accesses of this operation against the current placement */
        PersistentAccess acc; unsigned char *buf = NULL; size_t blen = 0; bool show = false;
        switch (code) {
        case 0: buf = malloc(dsize ? dsize : 1); for (size_t j = 0; j < dsize; j++) buf[j] = gen_octet(a, j);
                acc = persistent_store(&st, buf); break;
        case 1: { size_t k = c < 64 ? (size_t)c : 64; buf = malloc(k ? k : 1); for (size_t j = 0; j < k; j++) buf[j] = gen_octet(a, j);
                acc = persistent_store_part(&st, buf, (size_t)b, (size_t)c); break; }
        case 2: acc = persistent_validate(&st); break;
        case 3: buf = calloc(dsize ? dsize : 1, 1); blen = dsize; acc = persistent_fetch(buf, &st); show = true; break;
        case 4: { size_t k = b < dsize + 8 ? (size_t)b : dsize + 8; buf = calloc(k ? k : 1, 1); blen = k;
                acc = persistent_fetch_part(buf, &st, (size_t)a, (size_t)b); show = true; break; }
        case 5: acc = persistent_reset(&st, (unsigned char)a); break;
        case 8: persistent_place(&st, (uint32_t)a); g_lo = a; g_hi = a + (ckind == 2 ? 4 : 2) + dsize; out_s("place"); continue;
        case 9: free(aux); aux = a ? malloc((size_t)a) : NULL; persistent_buffer(&st, aux, (size_t)a); out_s("buffer"); continue;
        case 7: buf = malloc(dsize ? dsize : 1); for (size_t j = 0; j < dsize; j++) buf[j] = j < 8 ? (unsigned char)(a >> (8 * j)) : 0;   /* explicit image: the octets of a, least significant first */
                acc = persistent_store(&st, buf); break;
        default: if (a < g_len) g_img[a] ^= (unsigned char)b;
                 out_s("corrupt"); out_s("-"); out_h(g_img, g_len); out_s("-"); out_s("-"); continue;
        }
        out_s(accname(acc));
        if (show && acc == PERSISTENT_ACCESS_SUCCESS) out_h(buf, blen); else out_s("-");
        out_h(g_img, g_len); out_n(g_inreg); out_n(g_nacc == before);
        free(buf);
    }
    free(aux); free(g_img); free(g_rd); free(g_wr);
}
