from common import *
from regcommon import *
import C01, C02
ID = 'C03'
TRANSLATORS = [('consts2coq.py', ['coq/Gen/Consts.v']), ('reg2coq.py', ['coq/Gen/RegLeafGen.v'])]
GEN_FILES = ['coq/Gen/Consts.v', 'coq/Gen/RegLeafGen.v']
COQ_TARGETS = ['Properties_C03.vo', 'Proof/ConstsReg.vo', 'Proof/RegLeafT.vo']
HARNESS_MODS = ['reg']
RULE = ('reg.run cases (see C01) whose operations are block reads and range iterations over the small-scope table family: EVERY (address, length) window position incl. starts in holes, in gaps between '
        'registers, in the middle of multi-word registers and at area edges; readable and write-only areas; the destination is an exact-size heap block pre-filled with 0xEEEE; iteration callbacks follow '
        'scripts 0* (negative | positive)?.  Observation: code/address, the n words delivered, the sequence of handles passed to the callback.')
TRUSTED_BASE = C01.TRUSTED_BASE
ASSUMPTIONS = C02.ASSUMPTIONS
EXHAUSTIVE = {'quick': False, 'thorough': False}
NO_SHRINK = True
TECHNIQUE = 'Coq proof (block read = flat address space model with zero fill; iteration = ascending overlapping registers cut at first non-zero callback result) + correspondence over every window'
LEVEL_TEXT = ('Theorems in Properties_C03.v: zero length; NOENTRY iff an address of the request is unmapped, with the first such address; a successful block read delivers for every address of the request the word of the area mapping it, zero for non-readable areas, across area borders (flat word-memory abstraction); it reads back exactly what a successful block write stored; register_foreach_in visits exactly the registers overlapping the range, in order, and stops at the first non-zero callback result.  Model tied to the C by correspondence.')
LEVEL_NOTE = 'Trusted: Coq kernel; hand model of registers/core.c read/iteration paths (correspondence-tested on every window); ASan for the destination. No axioms. Translator tie: reg_range_touches and ra_addr_is_part_of of src/registers/core.c, translated on every check (tools/reg2coq.py), are proved equal to overlaps / addr_in_area of the model (Proof/RegLeafT.v).'

def gen(rng, tier):
    big = tier == 'thorough'
    for _ in range(300 if big else 80):
        tab = family_table(rng)
        lo, hi = tab.window()
        ops = [(0,)]
        for addr in range(lo, hi + 1):
            for n in range(0, min(hi - addr + 3, 12)):
                ops.append((7, addr, n))
                scr = rng.choice([(), (), (1, 1, 1, 0), (1, 2), (2,), (0,), (1, 1, 0), (1, 1, 2)])   # value - 1 = callback result
                ops.append((9, addr, n) + scr)
            if len(ops) > 300:
                yield tab.line(ops); ops = [(0,)]
        if len(ops) > 1:
            yield tab.line(ops)

def top_of_space(rng, count):
    """iteration windows that end exactly at the top of the 32-bit address space (addr + n = 2^32) or one below, over ordinary
    tables: "everything from addr on".  (Tables whose areas themselves end at 2^32 come from regcommon.at_top.)"""
    TOP = 2**32
    for _ in range(count):
        tab = family_table(rng)
        lo, hi = tab.window()
        ops = [(0,)]
        for addr in list(range(lo, hi + 1)) + [1, 2, 2**31, TOP - 2, TOP - 1]:
            if 1 <= addr < TOP:        # the length must fit the 32-bit offset type
                ops.append((9, addr, TOP - addr))
                if TOP - addr - 1 > 0:
                    ops.append((9, addr, TOP - addr - 1))
                scr = rng.choice([(1, 1, 1, 0), (1, 2), (0,), (1, 1, 2)])
                ops.append((9, addr, TOP - addr) + scr)
            # block reads whose length runs past the last address (addr + n > 2^32, n still a 32-bit count): the tables lie low, so the
            # first unmapped address is an ordinary one and must be reported; nothing may be delivered
            if addr >= 4:
                for n in (TOP - addr + 1, TOP - addr + 3, TOP - 1, 2**31 + 5):
                    if n < TOP:
                        ops.append((7, addr, n))
        yield tab.line(ops)

_gen0 = gen
def gen(rng, tier):
    yield from _gen0(rng, tier)
    yield from top_of_space(rng, 60 if tier == 'thorough' else 12)
    yield from reinit_histories(rng, 300 if tier == 'thorough' else 40)
    # the same window sweeps over tables whose highest area ends at 2^32 (end addresses are not representable in 32 bits)
    yield from at_top(_gen0, rng, tier, 120 if tier == 'thorough' else 25)

def nontrivial(c):
    return True
