from common import *
from regcommon import *
ID = 'C01'
TRANSLATORS = [('consts2coq.py', ['coq/Gen/Consts.v'])]
GEN_FILES = ['coq/Gen/Consts.v']
COQ_TARGETS = ['Properties_C01.vo', 'Proof/ConstsReg.vo']
HARNESS_MODS = ['reg']
RULE = ('case = reg.run <big-endian?> <areas> <initial words> <entries> <ops>: a register table built from a textual description (memory- or callback-backed areas on exact-size heap blocks, '
        'registers with trivial/fail/min/max/range/callback constraints), then a history of operations; after EVERY operation the result class (success / refused / refused-as-NOENTRY / '
        'uninitialised), for get the exact code, type and value, and a dump of every word of every area plus the touched flags.  C01 cases: every type x both byte orders x memory/callback backing x '
        'every constraint kind with bounds at type min/max/0; values: exhaustive for 16-bit types (thorough) / stride (quick), boundaries +-1 of each bound, float classes (zeros, subnormals, '
        'infinities, quiet and signalling NaNs), random; checked and unchecked set, wrongly typed values, handles 0..entries+2, 2^32-1, 2^32-2 and every k+2^b that aliases a register when truncated.  Op 13: typed sets while the write driver of a callback-backed area fails with each of the seven access codes (no success may be reported, nothing stored, the next get returns the old value).  Non-trivial: every case.')
TRUSTED_BASE = TB_COMMON + ['Model/RegTable.v hand-written from src/registers/core.c; float comparison and isnormal modelled on IEEE-754 bit patterns and PROVED equal to the comparison / classification of Flocq 4 formalisation of IEEE-754 binary32 / binary64 (Proof/FloatOrder.v); tie = correspondence',
                            'the corollaries C01_float32/64_order_is_Bcompare (Flocq validated numbers b32_of_bits / b64_of_bits) depend on the standard-library axioms ClassicalDedekindReals.sig_not_dec, ClassicalDedekindReals.sig_forall_dec, FunctionalExtensionality.functional_extensionality_dep, Classical_Prop.classic (brought in by Flocq validity proofs over the reals); every other theorem is closed under the global context']
ASSUMPTIONS = ['validator callbacks are pure functions of the value', 'custom area callbacks behave like memory (succeed and store)',
               'register_set_unsafe with a wrongly typed value is outside the statement (the C serialiser asserts)']
EXHAUSTIVE = {'quick': False, 'thorough': False}
TECHNIQUE = 'Coq proof (set/get round trip, serialisation round trip in both byte orders, refusal conditions, frame) + correspondence over types x orders x backings x constraints'
LEVEL_TEXT = ('Properties_C01.v: a successful typed set followed by get returns the identical value; the backing words are the value in the table byte order and no other word changes; a checked set is refused '
              'exactly for type mismatch, constraint violation, missing write callback or non-finite/subnormal float, NOENTRY exactly for a bad handle (also unchecked); refused sets change nothing.  The float order used by the constraints and the zero/normal classification are proved to be those of IEEE-754 as formalised by Flocq (every pair of bit patterns, NaN/-0/infinities/subnormals included).')
LEVEL_NOTE = 'Trusted: Coq kernel; hand model of registers/core.c (correspondence-tested); IEEE-754 comparisons on bit patterns, proved equal to Flocq. Axioms: none, except the four standard-library axioms (classic, functional_extensionality_dep, sig_not_dec, sig_forall_dec) under the two Bcompare corollaries.'

def gen0(rng, tier):
    big = tier == 'thorough'
    for t in range(8):
        for be in (0, 1):
            for kind in (MEM, CUSTOM):
                for ck_kind in range(6):
                    for rep in range(2 if big else 1):
                        ck = rand_check(rng, t, ck_kind)
                        size = TSIZE[t] + 2
                        flags = 3
                        areas = [(100, size, flags, kind)]
                        d = acceptable_default(rng, t, ck)
                        entries = [(0, 7, 100, 0, 0, 0), (t, d, 101, ck[0], ck[1], ck[2]), (0, 9, 101 + TSIZE[t], 0, 0, 0)]
                        tab = Table(be, areas, entries, [rng.randrange(65536) for _ in range(size)])
                        ops = [(0,)]
                        for v in boundary_values(rng, t, ck, 12 if big else 4):
                            ops += [(1, 1, t, v), (3, 1), (2, 1, t, v), (3, 1)]
                        # wrongly typed values (checked only), bad handles (checked and unchecked)
                        for wt in range(8):
                            if wt != t:
                                ops += [(1, 1, wt, rng.randrange(1 << TBITS[wt]))]
                        # ... and handles that alias a register when truncated to fewer bits (k + 2^b)
                        alias = [1 + (1 << b) for b in range(2, 32)] + [k + (1 << b) for k in (0, 2) for b in (8, 16, 31)]
                        for h in [0, 1, 2, 3, 4, 5, 2**32 - 1, 2**32 - 2] + alias:
                            ops += [(1, h, 0 if h != 1 else t, 5), (2, h, 0 if h != 1 else t, 5), (3, h)]
                        yield tab.line(ops)
        # no write callback / skip-defaults areas
        for kind, flags in ((MEM_NOWRITE, 1), (MEM, 7), (MEM, 1), (MEM, 2)):
            ck = rand_check(rng, t, rng.choice([0, 2, 3, 4, 5]))
            entries = [(t, acceptable_default(rng, t, ck), 100, ck[0], ck[1], ck[2])]
            tab = Table(rng.randrange(2), [(100, TSIZE[t], flags, kind)], entries, [rng.randrange(65536) for _ in range(TSIZE[t])])
            ops = [(0,)]
            for v in boundary_values(rng, t, ck, 2)[:8]:
                ops += [(1, 0, t, v), (3, 0), (2, 0, t, v), (3, 0)]
            yield tab.line(ops)
    # histories in which an operation ends early (failing sanitise), then every register is probed again
    for l in stale_state_histories(rng, 120 if big else 30):
        yield l
    # 16-bit types: all values
    step = 1 if big else 37
    for t in (0, 3):
        for be in (0, 1):
            ck = rand_check(rng, t, 4)
            tab = Table(be, [(10, 3, 3, MEM)], [(0, 1, 10, 0, 0, 0), (t, ck[1], 11, ck[0], ck[1], ck[2]), (0, 2, 12, 0, 0, 0)])
            vals = list(range(0, 65536, step))
            for i in range(0, len(vals), 1024):
                ops = [(0,)]
                for v in vals[i:i + 1024]:
                    ops += [(1, 1, t, v), (3, 1)]
                yield tab.line(ops)

def nontrivial(c):
    return True
NO_SHRINK = True

def failing_backend(rng):
    """typed sets while the write driver of a callback-backed area fails with each access code (op 13): the set must not report
    success, nothing is stored, the next get returns the old value; memory-backed areas never reach a failing driver"""
    for t in range(8):
        for be in (0, 1):
            for kind in (CUSTOM, MEM):
                ck = rand_check(rng, t, rng.choice([0, 2, 3, 4]))
                d = acceptable_default(rng, t, ck)
                tab = Table(be, [(100, TSIZE[t] + 1, 3, kind)], [(t, d, 100, ck[0], ck[1], ck[2]), (0, 9, 100 + TSIZE[t], 0, 0, 0)],
                            [rng.randrange(65536) for _ in range(TSIZE[t] + 1)])
                ops = [(0,)]
                vals = boundary_values(rng, t, ck, 2)
                for code in range(1, 8):
                    for chk in (1, 0):
                        v = rng.choice(vals)
                        ops += [(13, 0, t, v, chk, code), (3, 0), (1, 0, t, v), (3, 0), (13, 1, 0, 5, chk, code), (3, 1)]
                ops += [(13, 7, 0, 5, 1, 7), (13, 0, (t + 1) % 8, 5, 1, 7)]
                yield tab.line(ops)

def gen(rng, tier):
    yield from gen0(rng, tier)
    yield from failing_backend(rng)
    # the first tables again, moved so that their area ends at 2^32
    yield from at_top(gen0, rng, tier, 192 if tier == 'thorough' else 48)
