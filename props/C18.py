from common import *
ID = 'C18'
TRANSLATORS = []
COQ_TARGETS = ['Properties_C18.vo']
HARNESS_MODS = ['bb']
RULE = ('case = bb.hist <arena octets> <size> <used> <offset> <ops>: byte_buffer_set on an exact-size heap arena, then a history of '
        'add/consume/consume_at_most/rewind/clear/reset/repeat/set(/set NULL) calls; observation after EVERY call: return value, octets '
        'delivered, the struct fields size/used/offset and the whole arena image (ASan red zones on both sides of arena, caller data and '
        'destination).  Generation: explicit-state exploration - for sizes 1..5 every reachable (used, offset) state is reached by a shortest '
        'path and every operation with operand 0..size+1 is applied there; every set-up argument triple in 0..size+1; plus random histories '
        'on arenas up to 300 octets with operands biased to the boundaries incl. 2^64-1 and wrap-around sums.  Non-trivial: at least one '
        'operation after set-up; distinct = distinct case lines.')
TRUSTED_BASE = TB_COMMON + ['Model/ByteBuffer.v is hand-written from src/byte-buffer.c; the tie is the correspondence run (struct fields + full memory image after every call)']
ASSUMPTIONS = ['callers pass data/destination blocks of at least the requested length when the call is accepted (the harness passes min(n, small) octets so that a wrongly accepted huge request trips ASan)',
               'buffers with data == NULL (byte_buffer_null) are not modelled beyond set-up refusal']
EXHAUSTIVE = {'quick': True, 'thorough': True}
TECHNIQUE = 'Coq proof (invariant + FIFO refinement by induction over operation histories) + correspondence on exhaustive small-scope state exploration and random histories'
LEVEL_TEXT = ('Theorems in Properties_C18.v: invariant offset<=used<=size preserved by every operation and over every history (fold_left), exact '
              'effect of add/consume/consume_at_most/rewind/clear/reset/repeat on the abstract filled/unread sequences, FIFO order over histories, '
              'frame (arena length and octets beyond size unchanged), set-up refusal conditions; model tied to src/byte-buffer.c by correspondence.')
LEVEL_NOTE = 'Trusted: Coq kernel; hand model of byte-buffer.c (correspondence-tested on every reachable state of sizes 1..5 and random histories); harness+ASan. No axioms.'

U64 = 2**64 - 1

def sim(state, op, size):
    """abstract (used, offset) transition of the specified behaviour"""
    used, off = state
    c, a = op[0], op[1]
    if c == 0:
        return (used + a, off) if a <= size - used else state
    if c == 1:
        return (used, off + a) if a <= used - off else state
    if c == 2:
        r = used - off
        return state if r == 0 else (used, off + min(a, r))
    if c == 3:
        return (used - off, 0)
    if c in (4, 5):
        return (0, 0)
    if c == 6:
        return (used, 0)
    return state

def flat(ops):
    return lst([x for o in ops for x in o])

def gen(rng, tier):
    big = tier == 'thorough'
    # ---- explicit-state exploration, sizes 1..5
    for size in range(1, 6):
        arena = [rng.randrange(1, 256) for _ in range(size)]
        allops = [(0, n, rng.randrange(256), 0) for n in range(size + 2)] + [(1, n, 0, 0) for n in range(size + 2)] + \
                 [(2, n, 0, 0) for n in range(size + 2)] + [(3, 0, 0, 0), (4, 0, 0, 0), (5, 0, 0, 0), (6, 0, 0, 0)]
        start = (0, 0)
        paths = {start: []}
        todo = [start]
        while todo:
            st = todo.pop(0)
            for o in allops:
                ns = sim(st, o, size)
                if ns not in paths:
                    paths[ns] = paths[st] + [o]; todo.append(ns)
        for st, path in sorted(paths.items()):
            for o in allops:
                # apply o, then look at the result through a consume-all (FIFO content) and a rewind
                yield 'bb.hist %s %d 0 0 %s' % (hexs(arena), size, flat(path + [o, (3, 0, 0, 0), (2, size + 1, 0, 0)]))
                yield 'bb.hist %s %d 0 0 %s' % (hexs(arena), size, flat(path + [o]))
        # set-up refusal: every triple
        for s in range(0, size + 2):
            for u in range(0, size + 2):
                for o in range(0, size + 2):
                    if s <= size:
                        yield 'bb.hist %s %d %d %d %s' % (hexs(arena), s, u, o, flat([(2, 1, 0, 0)]))
                        yield 'bb.hist %s %d 0 0 %s' % (hexs(arena), size, flat([(7, s, u, o), (0, 1, 3, 0)]))
        yield 'bb.hist %s %d 0 0 %s' % (hexs(arena), size, flat([(8, size, 0, 0), (0, 1, 3, 0)]))
    # ---- random long histories
    for _ in range(600 if big else 120):
        size = rng.choice([1, 2, 3, 8, 16, 17, 64, 255, 256, 300])
        arena = [rng.randrange(256) for _ in range(size)]
        used = rng.randrange(size + 1); off = rng.randrange(used + 1)
        ops = []
        st = (used, off)
        for _ in range(rng.choice([5, 20, 80, 200 if big else 60])):
            c = rng.choice([0, 0, 0, 1, 1, 2, 2, 3, 3, 4, 5, 6, 7])
            u, o = st
            if c == 0:
                a = rng.choice([0, 1, size - u, size - u + 1, max(0, size - u - 1), rng.randrange(size + 2), U64, U64 - u + 1, U64 - u, 2**63, 2**32])
            elif c in (1, 2):
                a = rng.choice([0, 1, u - o, u - o + 1, max(0, u - o - 1), rng.randrange(size + 2), U64, 2**63])
            else:
                a = 0
            op = (c, a, rng.randrange(256), 0)
            if c == 7:
                s2 = rng.randrange(0, size + 1); u2 = rng.randrange(0, size + 2); o2 = rng.randrange(0, size + 2)
                op = (7, s2, u2, o2)
                if s2 != 0 and u2 <= s2 and o2 <= u2:
                    size_now = s2; st = (u2, o2)
                    ops.append(op); size = s2
                    continue
            else:
                st = sim(st, op, size)
            ops.append(op)
        yield 'bb.hist %s %d %d %d %s' % (hexs(arena), len(arena) if False else size if False else len(arena), used, off, flat(ops)) if False else \
              'bb.hist %s %d %d %d %s' % (hexs(arena), len(arena), used, off, flat(ops))

def nontrivial(c):
    return not c.endswith('l:')
