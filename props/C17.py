from common import *
import itertools
ID = 'C17'
TRANSLATORS = []
COQ_TARGETS = ['Properties_C17.vo']
HARNESS_MODS = ['ep', 'be']
RULE = ('cases: ep.get/ep.getatmost style stream script n (source_get_chunk[_atmost] over a scripted driver; obs: return value - exact errno -, destination '
        'octets on success, driver position, for EINVAL that no driver call was made) / ep.put/ep.putatmost (dual; obs: octets that reached the sink) / plumbing '
        'ep.cbc, ep.ncbc, ep.draincbc, ep.stsn, ep.stsdrain, ep.someaux, ep.atmostaux, ep.naux, ep.drainaux with scripted drivers of both styles on both sides '
        '(obs: return value, sink content, source position, image of the auxiliary buffer, which is an exact-size heap block).  Script alphabet {1,2,3,rest,0,EINTR,'
        'EAGAIN,EIO}: every script up to length 4 (quick) / 5 (thorough) for N in 1..6 on get and put, random scripts up to length 10 for all operations, random long '
        'transfers; be.get / be.chunks / be.put / be.sts: the buffer endpoints of endpoints/buffer.c on every small buffer state x request size, random chunk lists, counted buffer-to-buffer moves (obs: return value, octets delivered, read positions / fill level, memory image).  Non-trivial: script non-empty or N > 1.')
TRUSTED_BASE = TB_COMMON + ['Model/Endpoints.v hand-written from src/endpoints/core.c, Model/BufEndpoints.v from src/endpoints/buffer.c (over the C18 buffer model); tie = correspondence']
ASSUMPTIONS = ['a driver never returns more than it was asked for and never a positive count without data',
               'source_get_octet / sink_put_octet themselves pass a 0 answer of the driver on (their callers decide); sts_cbc and the plumbing built on it repeat such a call (fix 264994e)',
               'the getbuffer extension paths of sts_atmost/sts_n/sts_drain are not modelled: no endpoint in the library implements the extension',
               'auxiliary buffers are passed empty (used = offset = 0)']
EXHAUSTIVE = {'quick': False, 'thorough': False}
TECHNIQUE = 'Coq proof (exact-transfer theorems for scripted drivers by induction over scripts with fuel adequacy) + correspondence over exhaustive short scripts and random long ones'
LEVEL_TEXT = ('Theorems in Properties_C17.v about Model/Endpoints.v for EVERY driver script (Give k / 0 / EINTR / EAGAIN / hard error), octet- and chunk-style drivers: get/put of N octets deliver exactly the next N octets in order '
              '(delivered ++ remaining = stream; what reached the sink is a prefix), EINTR/EAGAIN never surface, hard errors are returned, invalid counts are refused without a driver call, the at-most variants never exceed the request; '
              'all retry loops terminate (the fuel of the model is proved adequate); the per-octet, fixed-count, counted and draining source-to-sink plumbing, without and with an auxiliary buffer, moves exactly n / everything in order or returns an error with a '
              'prefix in the sink (at most the octet - or the scratch-buffer load - in flight lost), writes only the start of the scratch image, and terminates, for EVERY source script and EVERY sink script (zero-length answers, EINTR/EAGAIN, '
              'hard errors on either side); the chunk-style drivers the library itself provides in endpoints/buffer.c - byte buffer as source, chunk list as source, byte buffer as sink - under the same loops: exactly the next N unread octets (across chunk borders and exhausted chunks) or all that is there plus end-of-data; appended exactly or refused unchanged (C17_buffer_source, C17_chunk_list_source, C17_buffer_sink).')
LEVEL_NOTE = 'Trusted: Coq kernel; hand model of endpoints/core.c (correspondence-tested); harness with scripted drivers. Partial: getbuffer-extension paths not modelled. No axioms.'

EV = [1, 2, 3, 99, 0, -4, -11, -5, -12]
EV_NOZERO = [1, 2, 3, 99, -4, -11, -5, -12]
SSIZE_MAX = 2**63 - 1

def gen_be(rng, big):
    """the library's own chunk-style drivers (endpoints/buffer.c): every small buffer state x every request size for the buffer source
    (exact and at-most) and the buffer sink; chunk lists with exhausted, partly read and untouched chunks; counted buffer-to-buffer moves"""
    SS = 2**63 - 1
    S = 5 if big else 4
    for size in range(1, S + 1):
        for used in range(0, size + 1):
            for off in range(0, used + 1):
                mem = [0x20 + i for i in range(size)]
                for n in list(range(0, size + 3)) + [SS, SS + 1, 2**64 - 1]:
                    yield 'be.get %d %d %d %s %d 0' % (size, used, off, hexs(mem), n)
                    if n <= size + 2:
                        yield 'be.get %d %d %d %s %d 1' % (size, used, off, hexs(mem), n)
                for dl in range(0, size + 2):
                    data = [0x80 + i for i in range(dl)]
                    for n in sorted(set([1, dl, max(0, dl - 1)] + ([0, SS + 1] if dl == 1 else []))):
                        if n <= dl or n > SS:
                            yield 'be.put %d %d %d %s %s %d' % (size, used, off, hexs(mem), hexs(data), n)
    for _ in range(4000 if big else 600):
        nc = rng.randrange(1, 5)
        useds = [rng.randrange(1, 5) for _ in range(nc)]
        offs = [rng.choice([0, 0, u, rng.randrange(u + 1)]) for u in useds]
        tot = sum(useds)
        mem = [rng.randrange(256) for _ in range(tot)]
        rest = sum(u - o for u, o in zip(useds, offs))
        yield 'be.chunks %s %s %s %d %d' % (lst(useds), lst(offs), hexs(mem), rng.choice([0, 0, 0, rng.randrange(nc + 1)]), (rng.randrange(1, rest + 1) if rest and rng.random() < 0.7 else rng.choice([0, rest + 1, rng.randrange(tot + 3)])))
    for _ in range(2000 if big else 300):
        ss = rng.randrange(1, 9); su = rng.randrange(ss + 1); so = rng.randrange(su + 1)
        ks = rng.randrange(1, 17); ku = rng.choice([0, 0, rng.randrange(ks + 1)])
        yield 'be.sts %d %d %d %s %d %d %s %d' % (ss, su, so, hexs([rng.randrange(256) for _ in range(ss)]), ks, ku,
                                              hexs([rng.randrange(256) for _ in range(ks)]), (rng.randrange(1, su - so + 1) if su > so and rng.random() < 0.7 else rng.randrange(0, su - so + 3)))

def gen(rng, tier):
    big = tier == 'thorough'
    L = 5 if big else 4
    stream = list(range(0x10, 0x10 + 12))
    for n in range(0, L + 1):
        for scr in itertools.product(EV, repeat=n):
            N = rng.randrange(1, 7)
            oc = rng.randrange(2)
            yield 'ep.get %d %s %s %d' % (oc, hexs(stream[:rng.choice([N, N, N + 2, max(0, N - 1)])]), lst(scr), N)
            yield 'ep.put %d %s %s %d' % (rng.randrange(2), hexs(stream[:N]), lst(scr), N)
            if n <= 3:
                for oc2 in (0, 1):
                    for N2 in (1, 2, 3, 6):
                        yield 'ep.get %d %s %s %d' % (oc2, hexs(stream[:N2 + 1]), lst(scr), N2)
                        yield 'ep.put %d %s %s %d' % (oc2, hexs(stream[:N2]), lst(scr), N2)
                yield 'ep.getatmost %d %s %s %d' % (rng.randrange(2), hexs(stream[:4]), lst(scr), rng.randrange(1, 6))
                yield 'ep.putatmost %d %s %s 0' % (rng.randrange(2), hexs(stream[:rng.randrange(1, 6)]), lst(scr))
    for n in (0, SSIZE_MAX + 1, 2**64 - 1, SSIZE_MAX):
        for oc in (0, 1):
            if n != SSIZE_MAX:
                yield 'ep.get %d %s l: %d' % (oc, hexs(stream[:4]), n)
                yield 'ep.put %d %s l: %d' % (oc, hexs(stream[:4]), n)
    # plumbing: every pair of short scripts on both sides, all four driver-style combinations
    L2 = 2 if big else 1
    for ns in range(0, L2 + 1):
        for ss in itertools.product(EV, repeat=ns):
            for nk in range(0, 3):
                for ks in itertools.product(EV, repeat=nk):
                    so, ko = rng.randrange(2), rng.randrange(2)
                    st = stream[:rng.choice([2, 3, 4])]
                    yield 'ep.ncbc %d %s %s %d %s %d' % (so, hexs(st), lst(ss), ko, lst(ks), rng.randrange(1, 5))
                    yield 'ep.stsn %d %s %s %d %s %d' % (so, hexs(st), lst(ss), ko, lst(ks), rng.randrange(1, 5))
                    yield 'ep.naux %d %s %s %d %s %d %d' % (so, hexs(st), lst(ss), ko, lst(ks), rng.choice([1, 2, 3]), rng.randrange(1, 5))
                    if nk <= 1:
                        yield 'ep.cbc %d %s %s %d %s' % (1 - so, hexs(st), lst(ss), 1 - ko, lst(ks))
                        yield 'ep.draincbc %d %s %s %d %s' % (so, hexs(st), lst(ss), 1 - ko, lst(ks))
                        yield 'ep.drainaux %d %s %s %d %s %d' % (1 - so, hexs(st), lst(ss), ko, lst(ks), rng.choice([1, 2, 3]))
    def rscript(alpha, maxlen=10):
        return [rng.choice(alpha) for _ in range(rng.randrange(0, maxlen + 1))]
    for _ in range(20000 if big else 2500):
        so, ko = rng.randrange(2), rng.randrange(2)
        ln = rng.choice([0, 1, 2, 5, 9, 17, 40])
        st = [rng.randrange(256) for _ in range(ln)]
        op = rng.choice(['cbc', 'ncbc', 'draincbc', 'stsn', 'stsdrain', 'someaux', 'atmostaux', 'naux', 'drainaux', 'get', 'put', 'atmost', 'some', 'octets'])
        if op == 'get':
            yield 'ep.get %d %s %s %d' % (so, hexs(st), lst(rscript(EV)), rng.randrange(1, ln + 3)); continue
        if op == 'put':
            yield 'ep.put %d %s %s %d' % (ko, hexs(st or [1]), lst(rscript(EV)), len(st or [1])); continue
        if op in ('cbc', 'ncbc', 'draincbc', 'stsn', 'stsdrain', 'atmost', 'some', 'octets'):
            ss, ks = rscript(EV, 6), rscript(EV, 6)
            if op in ('cbc', 'some') or op.endswith('drain') or op == 'draincbc':
                yield 'ep.%s %d %s %s %d %s' % (op, so, hexs(st), lst(ss), ko, lst(ks))
            else:
                yield 'ep.%s %d %s %s %d %s %d' % (op, so, hexs(st), lst(ss), ko, lst(ks), rng.randrange(0, ln + 3))
        else:
            ss, ks = rscript(EV, 6), rscript(EV, 6)
            asize = rng.choice([1, 2, 3, 4, 8, 16])
            if op in ('someaux', 'drainaux'):
                yield 'ep.%s %d %s %s %d %s %d' % (op, so, hexs(st), lst(ss), ko, lst(ks), asize)
            else:
                yield 'ep.%s %d %s %s %d %s %d %d' % (op, so, hexs(st), lst(ss), ko, lst(ks), asize, rng.randrange(0, ln + 3))

_gen_scripted = gen
def gen(rng, tier):
    yield from _gen_scripted(rng, tier)
    yield from gen_be(rng, tier == 'thorough')

def nontrivial(c):
    return ' l: ' not in c + ' ' or True
