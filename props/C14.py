from common import *
import itertools
ID = 'C14'
TRANSLATORS = [('consts2coq.py', ['coq/Gen/Consts.v'])]
GEN_FILES = ['coq/Gen/Consts.v']
COQ_TARGETS = ['Properties_C14.vo', 'Proof/ConstsVarint.vo']
HARNESS_MODS = ['vi']
RULE = ('cases: vi.enc kind value bufsize used offset (encode into a zeroed exact-size heap buffer; obs: return value, length query, used, '
        'offset, memory) / vi.dec kind octets offset (buffer decoder on an exact-size heap block so the buffer ends at the truncation point; '
        'obs: count or error class, value, offset) / vi.src kind octets style (source decoder, octet or chunk driver; obs: same + source position) / '
        'vi.sink kind value style (octets put on the sink).  Values: boundaries 2^(7k)-1, 2^(7k), 2^(7k)+1, type min/max, random; decoder inputs: all strings '
        'over {00,01,7f,80,81,ff} up to length 5 (quick) / 8 (thorough), longer ones sampled, random strings, every truncation of valid encodings.  '
        'Non-trivial: decoder input non-empty or any encoder case; distinct = distinct lines.')
TRUSTED_BASE = TB_COMMON + ['Model/Varint.v is hand-written from src/variable-length-integer.c; tie = correspondence (exact-size heap blocks under ASan for the no-over-read clause)']
ASSUMPTIONS = ['source drivers used for varint decoding deliver one octet per successful call (a driver returning 0 is outside the modelled domain)',
               'the compiled code\'s real memory accesses are observed by ASan on executed cases only; the theorem is about the model\'s index arithmetic']
EXHAUSTIVE = {'quick': False, 'thorough': False}
TECHNIQUE = 'Coq proof (base-128 canonical form, round trip, decoder agreement, bounded reads by induction on octet lists) + correspondence incl. exhaustive short decoder inputs under ASan'
LEVEL_TEXT = ('Theorems in Properties_C14.v for all 64-bit values and all octet strings: length = length query <= 10 (<= 5 below 2^32), canonical minimal form, '
              'decode(encode n) = n consuming exactly the encoding (buffer and source decoders, unsigned and signed kinds), agreement of the two decoders on every '
              'octet string, illegal on max continuation octets, buffer decoder reads only inside [offset, used); reading from ANY source script a success delivers the encoded value and consumes exactly the encoding (C14_from_source_any).  Model tied to the C by correspondence.')
LEVEL_NOTE = 'Trusted: Coq kernel; hand model of variable-length-integer.c (correspondence-tested); ASan for real accesses on executed cases. No axioms.'

ALPHA = [0x00, 0x01, 0x7f, 0x80, 0x81, 0xff]

def enc(n):
    out = []
    while True:
        d = n & 0x7f; n >>= 7
        if n == 0:
            out.append(d); return out
        out.append(d | 0x80)

def gen(rng, tier):
    big = tier == 'thorough'
    vals = set([0, 1, 2, 127, 128, 129, 2**32 - 1, 2**32, 2**31, 2**31 - 1, 2**63, 2**63 - 1, 2**64 - 1, 2**64 - 2])
    for k in range(1, 10):
        for d in (-1, 0, 1):
            vals.add(2**(7 * k) + d)
    for _ in range(4000 if big else 300):
        vals.add(rng.randrange(2**64)); vals.add(rng.randrange(2**32)); vals.add(rng.randrange(2**rng.randrange(1, 64)))
    vals = sorted(vals)
    for v in vals:
        for kind in range(4):
            if kind < 2 and v >= 2**32:
                continue
            arg = v
            if kind == 1 and v >= 2**31: arg = v - 2**32
            if kind == 3 and v >= 2**63: arg = v - 2**64
            mx = 5 if kind < 2 else 10
            yield 'vi.enc %d %d %d 0 0' % (kind, arg, mx)
            if rng.random() < 0.3:
                size = rng.choice([mx - 1, mx, mx + 1, mx + 7, 1, 4, 9])
                used = rng.randrange(size + 1); off = rng.randrange(used + 1)
                yield 'vi.enc %d %d %d %d %d' % (kind, arg, size, used, off)
            yield 'vi.sink %d %d %d' % (kind, arg, rng.randrange(2))
            e = enc(v)
            tail = [rng.randrange(256) for _ in range(rng.randrange(3))]
            yield 'vi.dec %d %s 0' % (kind, hexs(e + tail))
            yield 'vi.dec %d %s 0 0' % (kind, hexs(e + tail))   # byte_buffer_space style: used = 0
            yield 'vi.src %d %s %d' % (kind, hexs(e + tail), rng.randrange(2))
            # every truncation of the valid encoding: the buffer ends inside the varint
            for cut in range(len(e)):
                yield 'vi.dec %d %s 0' % (kind, hexs(e[:cut]))
                # ... and the same with octets already consumed in front of it (read offset > 0): continuation octets, so that a decoder
                # that misplaces the end of the buffer by the offset finds something to go on with
                for plen in (1, 2, 5):
                    yield 'vi.dec %d %s %d' % (kind, hexs([rng.choice([0x80, 0x01, 0xff])] * plen + e[:cut]), plen)
                if cut: yield 'vi.dec %d %s 0 %d' % (kind, hexs(e[:cut]), rng.randrange(cut + 1))
                yield 'vi.src %d %s %d' % (kind, hexs(e[:cut]), rng.randrange(2))
            if rng.random() < 0.3:
                pre = [rng.randrange(256) for _ in range(rng.randrange(1, 4))]
                yield 'vi.dec %d %s %d' % (kind, hexs(pre + e), len(pre))
    L = 8 if big else 5
    for n in range(0, L + 1):
        for t in itertools.product(ALPHA, repeat=n):
            kind = rng.randrange(4)
            yield 'vi.dec %d %s 0' % (kind, hexs(t))
            yield 'vi.src %d %s %d' % (kind, hexs(t), rng.randrange(2))
            if n <= (6 if big else 4):
                pre = [rng.choice(ALPHA) for _ in range(rng.randrange(1, 4))]
                yield 'vi.dec %d %s %d' % (kind, hexs(pre + list(t)), len(pre))
    for _ in range(60000 if big else 4000):
        n = rng.randrange(6, 12)
        t = [rng.choice(ALPHA) for _ in range(n)]
        if rng.random() < 0.5:
            t = [rng.choice([0x80, 0x81, 0xff]) for _ in range(n - 1)] + [rng.choice(ALPHA)]
        for kind in (rng.randrange(2), 2 + rng.randrange(2)):
            yield 'vi.dec %d %s 0' % (kind, hexs(t))
            yield 'vi.src %d %s %d' % (kind, hexs(t), rng.randrange(2))
    for _ in range(20000 if big else 2000):
        t = [rng.randrange(256) for _ in range(rng.randrange(1, 13))]
        kind = rng.randrange(4)
        yield 'vi.dec %d %s 0' % (kind, hexs(t))
        yield 'vi.src %d %s %d' % (kind, hexs(t), rng.randrange(2))

def nontrivial(c):
    return ' h: ' not in c + ' '
