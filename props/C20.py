from common import *
import itertools
ID = 'C20'
TRANSLATORS = [('consts2coq.py', ['coq/Gen/Consts.v'])]
GEN_FILES = ['coq/Gen/Consts.v']
COQ_TARGETS = ['Properties_C20.vo', 'Proof/ConstsSx.vo']
HARNESS_MODS = ['sx']
RULE = ('cases: sx.parse h:input mode (0: NUL-terminated copy, sx_parse_string; 1: exact-size heap block without terminator, sx_parse_stringn; obs: status, '
        'position and the tree in preorder on success / "no-tree" on error, allocation balance from the sanitizer\'s allocator statistics) and '
        'sx.tok h:input i (sx_parse_token: status, position, node).  Inputs: renderings of generated trees (symbols, decimal and #x integers in either letter case, '
        'nested proper lists incl. empty ones at any depth, varied white space), each also cut at every position; all strings over the alphabet '
        '( ) space newline a 1 # x F { up to length 5 (quick) / 6 (thorough) and sampled longer ones; random strings.  Every input in both presentation modes. '
        'Non-trivial: every case; distinct = distinct lines.')
TRUSTED_BASE = TB_COMMON + ['Model/Sx.v is hand-written from src/sx.c; tie = correspondence (exact-size heap blocks under ASan for the no-over-read clause, allocator statistics for leaks)']
ASSUMPTIONS = ['C locale character classes (octets >= 128 belong to no class; the harness passes them as the platform char)', 'integers are taken modulo 2^64', 'allocation failure (the library exits) is outside the domain']
EXHAUSTIVE = {'quick': False, 'thorough': False}
TECHNIQUE = 'Coq proof (reader inverts every rendering; accepted input is a rendering; everything else rejected; termination; numeral values) + correspondence on exact-size heap blocks under ASan with allocation balance'
LEVEL_TEXT = 'Theorems in Properties_C20.v about Model/Sx.v for all ASCII inputs: every rendering of every tree of symbols, 64-bit unsigned integers (decimal, #x hexadecimal in any mixture of cases) and nested proper lists (incl. empty lists at any depth), with arbitrary white space, is read back as the identical tree at the position just past it; conversely whatever is accepted is such a rendering; an input that does not begin with a complete expression yields an error status; the reader terminates on every input and is a function of the n given octets only.  Model tied to the C by correspondence (NUL-terminated and length-delimited exact-size blocks under ASan, allocation balance from the sanitizer allocator statistics, all strings up to length 5/6 over a 10-character alphabet, rendered trees cut at every position).'
LEVEL_NOTE = 'Partial for the runtime clauses: no over-read / no leak of the compiled code are observed (ASan, allocator statistics) on executed cases; the theorems cover the reader as a function. Trusted: Coq kernel; hand model of sx.c; correspondence. All 256 octet values. No axioms.'
NO_SHRINK = False

ALPHA = [ord(c) for c in '() \na1#xF{']
SYMS = ['a', 'foo', 'b-1', '+', 'x', 'F', 'list?', 'a.b']
WS = ['', ' ', '  ', '\n', '\t ', ' \r\n']

def rand_tree(rng, depth, budget):
    if depth == 0 or budget[0] <= 0 or rng.random() < 0.35:
        budget[0] -= 1
        k = rng.randrange(3)
        if k == 0:
            return ('s', rng.choice(SYMS))
        return ('i', rng.choice([0, 1, 9, 10, 15, 16, 255, 256, 0xabcdef, 0xDEADBEEF, 2**32, 2**64 - 1, rng.randrange(2**64)]))
    n = rng.choice([0, 0, 1, 2, 3])
    budget[0] -= 1
    return ('l', [rand_tree(rng, depth - 1, budget) for _ in range(n)])

def render(rng, t, tight=False):
    if t[0] == 's':
        return t[1]
    if t[0] == 'i':
        m = rng.randrange(4)
        if m == 0: return str(t[1])
        if m == 1: return '#x%x' % t[1]
        if m == 2: return '#x%X' % t[1]
        h = '%x' % t[1]
        return '#x' + ''.join(c.upper() if rng.randrange(2) else c for c in h)
    out = '(' + (rng.choice(WS) if not tight else '')
    prev_atom = False
    for e in t[1]:
        r = render(rng, e, tight)
        sep = rng.choice(WS) if not tight else ''
        if prev_atom and not r.startswith('(') and sep == '':
            sep = ' '
        out += sep + r
        prev_atom = e[0] != 'l'
    return out + (rng.choice(WS) if not tight else '') + ')'

def both(s):
    bs = s if isinstance(s, (list, tuple)) else [ord(c) for c in s]
    yield 'sx.parse %s 0' % hexs(bs)
    yield 'sx.parse %s 1' % hexs(bs)

def gen(rng, tier):
    big = tier == 'thorough'
    fixed = ['', ' ', '()', '( )', ')', '(', '(a', '(a ', '(a (b', '(a () b)', '(())', '((()))', '(() ())', '#xFF', '#xff', '#xfF', '#x', '#', '#x1', '#x1g',
             '(#xAB)', '12a', 'a{', 'a b', ' a ', '(1 2 3)', '(a(b)c)', 'a)', '1(', '(a . b)', '(foobar (stuff) (1 2)', '((1 (a b)) (q) 2 3)', '  )', '(  ', ')(' , '(a))',
             '18446744073709551615', '18446744073709551616', '#xFFFFFFFFFFFFFFFF', '#x10000000000000000', '0', '007', '#x0', '(- -1 a-)']
    for s in fixed:
        yield from both(s)
        for i in range(len(s) + 1):
            yield 'sx.tok %s %d' % (hexs([ord(c) for c in s]), i)
    for _ in range(3000 if big else 400):
        t = rand_tree(rng, 4, [6])
        s = rng.choice(WS) + render(rng, t, tight=rng.random() < 0.2) + rng.choice(['', '', ' ', ')', ' x', '(', '\n'])
        yield from both(s)
        if rng.random() < 0.5:
            for cut in range(len(s)):
                yield from both(s[:cut])
        yield 'sx.tok %s %d' % (hexs([ord(c) for c in s]), rng.randrange(len(s) + 1))
    # every octet value in every role: alone, inside a symbol, inside a decimal / hexadecimal numeral, between list elements
    for x in range(1, 256):
        for ctx in ([x], [0x61, x, 0x62], [0x31, x, 0x32], [0x23, 0x78, 0x31, x, 0x41], [0x28, 0x61, x, 0x62, 0x29], [0x28, x, 0x29], [0x23, x, 0x31], [x, 0x28, 0x29]):
            yield from both(ctx)
        yield 'sx.tok %s %d' % (hexs([0x61, x, 0x62]), x % 4)
    L = 6 if big else 5
    for n in range(0, L + 1):
        for t in itertools.product(ALPHA, repeat=n):
            yield from both(t)
    for _ in range(200000 if big else 6000):
        n = rng.randrange(L + 1, 14)
        t = [rng.choice(ALPHA) for _ in range(n)]
        yield from both(t)
    for _ in range(20000 if big else 2000):
        t = [rng.choice([rng.randrange(1, 128), rng.randrange(1, 256)]) for _ in range(rng.randrange(0, 12))]
        yield from both(t)
        yield 'sx.tok %s %d' % (hexs(t), rng.randrange(len(t) + 1))

def nontrivial(c):
    return True
