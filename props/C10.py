from common import *
ID = 'C10'
TRANSLATORS = []
COQ_TARGETS = ['Properties_C10.vo']
HARNESS_MODS = ['ps']
RULE = ('case = ps.run <window base> <medium image> <checksum address> <algorithm 0 trivial-16 / 1 CRC-16/ARC / 2 32-bit sum> <initial value> <data size> '
        '<aux buffer size, -1 = none> <read fault script> <write fault script> <ops>: a history of store / store_part(offset,n) / validate / fetch / '
        'fetch_part / reset / out-of-band alteration / store of an explicit image (pairs of different images with the SAME checksum under each algorithm) / re-placement of the instance and change of its auxiliary buffer in mid-life on a logging medium whose window extends 4 octets beyond the region on both sides.  Observation after every '
        'operation: access code, fetched octets, the whole medium image, "every access of this operation inside the current [checksum, checksum+size+data)", and for refused part accesses '
        '"no medium access at all".  Grid: data sizes 1..N, placements {4, 7, 4096, 2^32-region-4, 2^32-region (last octet at 0xffffffff)}, initial values up to 0xffff for every algorithm and 0x10000 / 0x80000000 / 0xffffffff / ... for the 32-bit sum, three algorithms, buffer sizes -1, 0..N+1, every (offset, n) of part '
        'stores and fetches incl. arithmetic-overflow pairs (2^64-1, 2^63 ...), every single-octet alteration.  Non-trivial: at least one store.')
TRUSTED_BASE = TB_COMMON + ['Model/Persist.v hand-written from src/persistent-storage.c; checksum algorithms are per-octet folds (trivial sum, CRC-16/ARC = C16 spec step, 32-bit sum) supplied to the C code by the harness']
ASSUMPTIONS = ['the medium is an array of octets addressed by uint32; regions that wrap around 2^32 are not generated',
               'checksum callbacks are pure folds over the octets they are given']
EXHAUSTIVE = {'quick': False, 'thorough': False}
TECHNIQUE = 'Coq proof (chunk-independence by fold_left_app, round trip, region confinement, refusal incl. size_t overflow pairs) + correspondence on the configuration grid'
LEVEL_TEXT = ('Properties_C10.v: for every data image, placement, checksum step function and chunk size >= 1 the checksum computed from the medium equals the fold of the step over the '
              'data image (chunk independence); store then validate = SUCCESS and fetch returns the image; part accesses beyond the data size are refused with an empty access log; '
              'every logged access of store/store_part, validate, fetch/fetch_part and reset lies inside the checksum-plus-data region for EVERY medium (any image, any read/write fault scripts, any chunk size) and every argument, successful or not (C10_region_*); alteration detected whenever the algorithm separates the images.')
LEVEL_NOTE = 'Trusted: Coq kernel; hand model of persistent-storage.c (correspondence-tested on the grid); harness medium. No axioms.'

U64 = 2**64 - 1

def flat(ops):
    return lst([x for o in ops for x in o])

def case(rng, caddr, ckind, init, dsize, bs, rd, wr, ops, img=None):
    csize = 4 if ckind == 2 else 2
    base = caddr - 4
    n = 4 + csize + dsize + 4
    if img is None:
        img = [0xAA] * 4 + [rng.randrange(256) for _ in range(csize + dsize)] + [0xAA] * 4
    return 'ps.run %d %s %d %d %d %d %d %s %s %s' % (base, hexs(img), caddr, ckind, init, dsize, bs, lst(rd), lst(wr), flat(ops))

def gen(rng, tier):
    big = tier == 'thorough'
    N = 40 if big else 12
    sizes = list(range(1, N + 1))
    for dsize in sizes:
        for ckind in (0, 1, 2):
            csize = 4 if ckind == 2 else 2
            places = [4, 7, 4096, 2**32 - (csize + dsize) - 4]
            for caddr in (places if (big or dsize <= 4) else [rng.choice(places)]):
                bss = [-1] + list(range(0, dsize + 2))
                for bs in (bss if (big or dsize <= 6) else rng.sample(bss, 4)):
                    init = rng.choice([0, 1, 0xffff, rng.randrange(65536)])
                    seed = rng.randrange(256)
                    ops = [(0, seed, 0, 0), (2, 0, 0, 0), (3, 0, 0, 0)]
                    # a part store, then validate + fetch
                    off = rng.randrange(dsize); n = rng.randrange(0, dsize - off + 1)
                    ops += [(1, rng.randrange(256), off, n), (2, 0, 0, 0), (3, 0, 0, 0), (4, off, n, 0)]
                    # single-octet alteration of a stored octet, validate, restore
                    idx = 4 + rng.randrange(csize + dsize); x = rng.randrange(1, 256)
                    ops += [(6, idx, x, 0), (2, 0, 0, 0), (6, idx, x, 0), (2, 0, 0, 0)]
                    ops += [(5, rng.randrange(256), 0, 0), (2, 0, 0, 0)]
                    yield case(rng, caddr, ckind, init, dsize, bs, [], [], ops)
    # 32-bit checksums whose initial value does not fit 16 bits (every path must use the full width: one-shot and chunked)
    for init in (0x10000, 0x80000000, 0xffffffff, 0x12345678, 0xffff0000):
        for dsize in (1, 2, 5):
            for bs in (-1, 0, 2, dsize):
                off = rng.randrange(dsize); n = rng.randrange(0, dsize - off + 1)
                ops = [(0, rng.randrange(256), 0, 0), (2, 0, 0, 0), (3, 0, 0, 0), (1, rng.randrange(256), off, n), (2, 0, 0, 0), (3, 0, 0, 0),
                       (7, rng.randrange(2**64), 0, 0), (2, 0, 0, 0), (5, rng.randrange(256), 0, 0), (2, 0, 0, 0)]
                yield case(rng, rng.choice([4, 4096]), 2, init, dsize, bs, [], [], ops)
    # regions whose last octet is 0xffffffff (address + size = 2^32: no wrap, but every 32-bit end computation wraps to 0)
    for dsize in sizes:
        for ckind in (0, 1, 2):
            csize = 4 if ckind == 2 else 2
            caddr = 2**32 - (csize + dsize)
            for bs in [-1, 0, 1, 2, dsize, dsize + 1]:
                off = rng.randrange(dsize); n = rng.randrange(0, dsize - off + 1)
                idx = 4 + rng.randrange(csize + dsize); x = rng.randrange(1, 256)
                ops = [(0, rng.randrange(256), 0, 0), (2, 0, 0, 0), (3, 0, 0, 0), (1, rng.randrange(256), off, n), (2, 0, 0, 0), (3, 0, 0, 0), (4, off, n, 0),
                       (1, rng.randrange(256), dsize - 1, 1), (2, 0, 0, 0), (4, dsize - 1, 1, 0),
                       (6, idx, x, 0), (2, 0, 0, 0), (6, idx, x, 0), (2, 0, 0, 0), (5, rng.randrange(256), 0, 0), (2, 0, 0, 0)]
                yield case(rng, caddr, ckind, rng.choice([0, 1, 0xffff]), dsize, bs, [], [], ops)
    # every (offset, n) of part stores/fetches incl. overflow pairs, every alteration
    for dsize in ([1, 2, 3, 5, 8] if not big else list(range(1, 13))):
        for ckind in (0, 1, 2):
            csize = 4 if ckind == 2 else 2
            caddr = rng.choice([4, 4096, 2**32 - (csize + dsize) - 4])
            bs = rng.choice([-1, 1, 2, dsize, dsize + 1])
            pairs = [(o, n) for o in range(dsize + 2) for n in range(dsize + 2)]
            pairs += [(U64, 1), (U64, 2), (1, U64), (U64 - dsize + 1, dsize), (2**63, 2**63), (2**63, 2**63 + 1), (U64, U64), (dsize, U64 - dsize + 1), (2**32, 1), (2**32 - 1, 2)]
            for (o, n) in pairs:
                ops = [(0, 7, 0, 0), (1, 9, o, n), (2, 0, 0, 0), (3, 0, 0, 0), (4, o, n, 0)]
                yield case(rng, caddr, ckind, 0, dsize, bs, [], [], ops)
            for idx in range(csize + dsize):
                for x in (1, 0x80, 0xff):
                    yield case(rng, caddr, ckind, 0, dsize, bs, [], [], [(0, 3, 0, 0), (6, 4 + idx, x, 0), (2, 0, 0, 0)])
    # histories of two full stores whose images differ but have the SAME checksum (explicit images, op 7): trivial sum - a
    # permutation; CRC-16/ARC and the 32-bit sum - searched collisions; then validate and fetch: the second image must be there
    def crc16(bs, c=0):
        for b in bs:
            c ^= b
            for _ in range(8):
                c = (c >> 1) ^ 0xA001 if c & 1 else c >> 1
        return c
    def sum32(bs, s=0):
        for b in bs:
            s = (s * 31 + b + 1) & 0xffffffff
        return s
    def val(bs):
        return sum(b << (8 * i) for i, b in enumerate(bs))
    for dsize in (2, 3, 4, 8):
        for _ in range(6 if big else 2):
            a = [rng.randrange(256) for _ in range(dsize)]
            pairs = []
            b = a[1:] + a[:1]
            if b != a:
                pairs.append((0, a, b))
            # 32-bit sum: (d0 + 1, d1 - 31) keeps s*31*31 + d0*31 + d1
            if a[0] < 255 and a[1] >= 31:
                pairs.append((2, a, [a[0] + 1, a[1] - 31] + a[2:]))
            # CRC: search a second image with the same remainder (3 free octets suffice)
            if dsize >= 3:
                want = crc16(a)
                for x in range(1 << 24):
                    c = [x & 255, (x >> 8) & 255, (x >> 16) & 255] + a[3:]
                    if c != a and crc16(c) == want:
                        pairs.append((1, a, c)); break
            for ckind, x, y in pairs:
                assert (crc16(x) == crc16(y) if ckind == 1 else sum32(x) == sum32(y) if ckind == 2 else sum(x) == sum(y)) and x != y
                csize = 4 if ckind == 2 else 2
                for bs in (-1, 0, 3):
                    ops = [(7, val(x), 0, 0), (2, 0, 0, 0), (3, 0, 0, 0), (7, val(y), 0, 0), (2, 0, 0, 0), (3, 0, 0, 0), (7, val(y), 0, 0), (3, 0, 0, 0), (7, val(x), 0, 0), (3, 0, 0, 0)]
                    yield case(rng, rng.choice([4, 7, 4096]), ckind, 0, dsize, bs, [], [], ops)
    # the caller re-places the instance and changes its auxiliary buffer in mid-life (ops 8, 9): nothing of the old placement may linger
    for _ in range(600 if big else 80):
        dsize = rng.randrange(1, 12); ckind = rng.randrange(3); csize = 4 if ckind == 2 else 2
        span = csize + dsize
        img = [0xAA] * 4 + [rng.randrange(256) for _ in range(3 * span + 8)] + [0xAA] * 4
        places = [4, 4 + span, 4 + span + 3, 4 + 2 * span + 8]
        ops = []
        for _s in range(rng.randrange(2, 6)):
            ops += [(8, rng.choice(places), 0, 0)]
            if rng.random() < 0.5:
                ops += [(9, rng.choice([0, 1, 2, dsize, dsize + 3]), 0, 0)]
            ops += rng.choice([[(0, rng.randrange(256), 0, 0), (2, 0, 0, 0), (3, 0, 0, 0)], [(2, 0, 0, 0), (3, 0, 0, 0)],
                               [(1, rng.randrange(256), rng.randrange(dsize), 1), (2, 0, 0, 0)], [(5, rng.randrange(256), 0, 0), (2, 0, 0, 0), (3, 0, 0, 0)]])
        # base: the window starts 4 octets below the first place
        yield 'ps.run %d %s %d %d %d %d %d %s %s %s' % (0, hexs(img), places[0], ckind, rng.choice([0, 1, 0xffff]), dsize, rng.choice([-1, 0, 2]), lst([]), lst([]), flat(ops))
    # random histories
    for _ in range(2000 if big else 200):
        dsize = rng.randrange(1, 30); ckind = rng.randrange(3); csize = 4 if ckind == 2 else 2
        caddr = rng.choice([4, 7, 4096, 2**32 - (csize + dsize) - 4]); bs = rng.choice([-1, 0, 1, 2, 3, dsize - 1, dsize, dsize + 1])
        ops = []
        for _ in range(rng.randrange(1, 12)):
            c = rng.choice([0, 1, 1, 2, 3, 4, 5, 6, 7])
            if c == 0: ops.append((0, rng.randrange(256), 0, 0))
            elif c == 1:
                o = rng.randrange(dsize + 1); ops.append((1, rng.randrange(256), o, rng.randrange(0, dsize - o + 2)))
            elif c == 4:
                o = rng.randrange(dsize + 1); ops.append((4, o, rng.randrange(0, dsize - o + 2), 0))
            elif c == 5: ops.append((5, rng.randrange(256), 0, 0))
            elif c == 7: ops.append((7, rng.randrange(2**64), 0, 0))
            elif c == 6: ops.append((6, 4 + rng.randrange(csize + dsize), rng.randrange(1, 256), 0))
            else: ops.append((c, 0, 0, 0))
        yield case(rng, caddr, ckind, rng.randrange(65536), dsize, bs, [], [], ops)

def nontrivial(c):
    return True
