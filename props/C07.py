from common import *
from rpcommon import *
ID = 'C07'
TRANSLATORS = [('consts2coq.py', ['coq/Gen/Consts.v'])]
GEN_FILES = ['coq/Gen/Consts.v']
COQ_TARGETS = ['Properties_C07.vo', 'Proof/ConstsRegp.vo']
HARNESS_MODS = ['rp']
RULE = ('cases: rp.corrupt 1 mem16 style blocksize l:bits h:frame l:verdicts - the valid serial frame with the listed bits flipped (bit i = bit i%8, least '
        'significant first, of octet i/8) is SLIP-framed, received and processed; obs as rp.serve (return code, error id, parsed frame, backend calls, reply, '
        'ledger). Predicate on the implementation\'s observation: a damaged frame is a channel error or carries error id EBADMSG/EILSEQ/EFAULT/EPROTO and causes no '
        'backend call. Also: correctly checksummed frames whose block-size field is k + 2^b or k - 2^b for every b while k words are carried (both word sizes, every checksum option). Corpus of fifteen frames (read/write requests 8/16 bit, acknowledgements with and without payload, error responses with and without payload, '
        'meta; frames whose stored payload / header checksum is 0x0000 or 0xffff): every single-bit flip, two-bit flips outside the first word (all pairs for the short frames, sampled for long ones in the quick tier), bursts of '
        'length 2..16 at every bit offset >= 16 (end bits set; interior all-ones, all-zeros, random; every interior for the bursts crossing a field boundary of the '
        'header up to length 12 quick / 16 thorough), every truncation length, extensions by 1..4 octets.  rp.serve cases: frames with every combination of the '
        'option bits, types, codes, right and wrong checksums on both transports (agreement with the model, whose verdict is proved equal to the independent '
        'reading of the document).  Non-trivial: every case; distinct = distinct lines.')
TRUSTED_BASE = TB_COMMON + ['Model/Regp.v and Model/RegpSpec.v are hand-written from src/register-protocol.c and doc/regp.txt; tie = correspondence']
ASSUMPTIONS = ['bursts are measured in transmission order of an asynchronous serial line: least significant bit of each octet first',
               'little-endian host']
EXHAUSTIVE = {'quick': False, 'thorough': False}
TECHNIQUE = 'Coq proof (receiver = independent reading of the document for every octet sequence; CRC-16/ARC linearity, burst and double-bit detection; damaged-frame theorems; refutation witness) + correspondence + property predicate on every corpus corruption'
LEVEL_TEXT = 'Theorems in Properties_C07.v: the receiver model\'s verdict equals the independent reading of doc/regp.txt (Model/RegpSpec.v) for EVERY octet sequence; CRC-16/ARC is xor-linear, detects every burst of <= 16 bits (LSB-first order) and every two damaged bits < 32767 bits apart in messages of any length; for serial frames: any such damage inside sequence/address/size, inside the stored checksums, in the payload, any single-bit error of the first header word, truncation and extension are classified as header-encoding, header-checksum, size or payload-checksum fault (never accepted); frames with payload: every damage behind the first word is reported.  The burst clause is REFUTED for frames without payload-checksum field whose block size is not cross-checked (read requests, meta): C07_burst_refuted (witness) and C07_boundary_bursts_exactly (exactly 63 patterns across the block-size/checksum boundary) - recorded as known finding.  Model tied to the C by correspondence; the predicate "damaged frame => fault and no backend call" is evaluated on the implementation for every corpus corruption.'
LEVEL_NOTE = 'Partial by refutation: the property is false as stated (known finding C07-burst-header-crc-boundary, wire-format matter). Trusted: Coq kernel incl. vm_compute sweeps; hand model + hand-written independent spec; correspondence. No axioms.'
NO_SHRINK = True

def corpus(rng):
    fr = []
    fr.append(raw_frame(0, 2, 0, 0x1234, 0x40, 5, []))
    fr.append(raw_frame(0, 3, 0, 0xc0db, 0xdeadbeef, 1000, []))
    fr.append(raw_frame(2, 6, 0, 0x0001, 0x64, 3, [0x11, 0xc0, 0xdb]))
    fr.append(raw_frame(2, 7, 0, 0xffff, 0x10000, 2, [1, 2, 3, 4]))
    fr.append(raw_frame(1, 7, 0, 0x0102, 0x64, 2, [0xde, 0xad, 0xbe, 0xef]))
    fr.append(raw_frame(3, 2, 0, 0x0102, 0x64, 0, []))
    fr.append(raw_frame(1, 6, 7, 0x0102, 0x64, 4, [0, 0, 0, 0x64]))
    fr.append(raw_frame(15, 2, 2, 0, 0, 0, []))
    fr.append(raw_frame(3, 2, 11, 77, 0x64, 0, []))
    # frames whose stored checksums take the values an implementation might mistake for "absent": payload checksum 0x0000
    # (every all-zero payload), header checksum 0x0000 / 0xffff and payload checksum 0xffff (sequence number / payload searched)
    fr.append(raw_frame(2, 6, 0, 0x0007, 0x20, 4, [0, 0, 0, 0]))
    fr.append(raw_frame(2, 7, 0, 0x0008, 0x20, 2, [0, 0, 0, 0]))
    fr.append(raw_frame(1, 6, 0, 0x0009, 0x20, 2, [0, 0]))
    for want in (0x0000, 0xffff):
        for seq in range(65536):
            f = raw_frame(0, 2, 0, seq, 0x40, 5, [])
            if f[12] * 256 + f[13] == want:
                fr.append(f); break
        for a in range(65536):
            pl = [a >> 8, a & 255, 0x5a]
            if want and crc16(pl) == want:
                fr.append(raw_frame(2, 6, 0, 0x000a, 0x20, 3, pl)); break
    return fr

def line(raw, bits, mem16, rng):
    return 'rp.corrupt 1 %d %d 128 %s %s %s' % (mem16, rng.randrange(2), lst(sorted(bits)), hexs(raw), lst(verdicts(rng, 1)))

def gen(rng, tier):
    big = tier == 'thorough'
    for raw in corpus(rng):
        mem16 = (raw[0] & 1)
        nb = 8 * len(raw)
        # the undamaged frame is accepted (so that the predicate is not vacuous): served as a plain frame
        yield serve_line(1, mem16, rng.randrange(2), 128, [], wire(1, raw), verdicts(rng, 1))
        for i in range(nb):
            yield line(raw, [i], mem16, rng)
        pairs = [(i, j) for i in range(16, nb) for j in range(i + 1, nb)]
        if not big and len(raw) > 14:
            pairs = rng.sample(pairs, 1500)
        for i, j in pairs:
            yield line(raw, [i, j], mem16, rng)
        for s in range(16, nb):
            for ln in range(2, 17):
                if s + ln > nb:
                    break
                inner = ln - 2
                crossing = (s // 8) in (11, 13, 15) or ((s + ln - 1) // 8) in (12, 14, 16)
                if crossing and (big or ln <= 12):
                    masks = range(1 << inner)
                else:
                    masks = set([0, (1 << inner) - 1] + [rng.randrange(1 << inner) for _ in range(6 if big else 2)])
                for m in masks:
                    yield line(raw, [s] + [s + 1 + k for k in range(inner) if m >> k & 1] + [s + ln - 1], mem16, rng)
        # truncation and extension: served as frames of their own
        for L in range(len(raw)):
            yield 'rp.corrupt 1 %d %d 128 l: %s %s' % (mem16, rng.randrange(2), hexs(raw[:L]), lst(verdicts(rng, 1)))
        for k in range(1, 5):
            for _ in range(3):
                yield 'rp.corrupt 1 %d %d 128 l: %s %s' % (mem16, rng.randrange(2), hexs(raw + [rng.choice([0, 0xff, rng.randrange(256)]) for _ in range(k)]), lst(verdicts(rng, 1)))
    yield from with_lending(gen_serve_opts(rng, 8000 if big else 800))
    # correctly checksummed frames whose block-size field exceeds the payload by a power of two (k + 2^b words announced, k carried):
    # implausible for every b, also where 2 * blocksize or a narrowed blocksize wraps back to the carried size
    for ftype in (2, 1):
        for opts in (0, 1, 2, 3, 6, 7):
            w16 = opts & 1
            for k in (0, 1, 2, 3):
                for b in range(0, 32):
                    for bsize in (k + (1 << b), (k - (1 << b)) % 2**32):
                        if bsize == k:
                            continue
                        pl = [rng.randrange(256) for _ in range(k * (2 if w16 else 1))]
                        raw = raw_frame(ftype, opts, 0, rng.randrange(65536), rng.choice([0x20, 0x64]), bsize, pl)
                        yield 'rp.corrupt 1 %d %d 128 l: %s %s' % (w16, rng.randrange(2), hexs(raw), lst(verdicts(rng, 1)))

def violates(case, obs):
    if not case.startswith('rp.corrupt '):
        return None
    t = obs.split(' ')
    if t[0] == 'skip':
        return None
    if len(t) < 4 or t[0] != '#':
        return 'unreadable observation'
    if t[1] != '0':
        return None                      # channel error: nothing handed out
    bar = t.index('|')
    calls = t[bar + 1: t.index('|', bar + 1)]
    if calls:
        return 'a damaged frame was executed against the memory backend'
    if t[2] not in ('EBADMSG', 'EILSEQ', 'EFAULT', 'EPROTO'):
        return 'a damaged frame was accepted (error id %s): property C07 demands classification as header-encoding, header-checksum, payload-size or payload-checksum fault' % t[2]
    return None

def nontrivial(c):
    return True
