from common import *
from rpcommon import *
ID = 'C06'
TRANSLATORS = []
COQ_TARGETS = ['Corr/Dispatch.vo']
HARNESS_MODS = ['rp']
RULE = ('cases: rp.serve serial mem16 style blocksize l:allocscript h:stream l:verdicts - a session history: receive, process, release, until the octet '
        'stream is used up; the memory backend records every call (kind, address, block size, payload octets) and answers with the scripted verdict '
        '(status, address, data seed); obs per round: return code, error id, parsed frame, backend calls, reply octets, allocator ledger. '
        'Streams: every request kind (read/write x 8/16 bit) x every backend verdict (12 codes) x both transports x both memory widths (incl. word-size mismatch), '
        'block sizes 0..capacity and around the transmit limit, multi-frame histories mixing requests, responses, meta messages and damaged frames. '
        'Non-trivial: a stream with at least one well-formed request; distinct = distinct lines.')
TRUSTED_BASE = TB_COMMON + ['Model/Regp.v is hand-written from src/register-protocol.c and doc/regp.txt; tie = correspondence']
ASSUMPTIONS = ['little-endian host: 16-bit words travel in host memory order', 'the reply sink accepts everything (sink failures are outside the modelled domain)']
EXHAUSTIVE = {'quick': False, 'thorough': False}
TECHNIQUE = 'Coq proof + correspondence'
LEVEL_TEXT = 'wip'
LEVEL_NOTE = 'wip'
NO_SHRINK = True

def gen(rng, tier):
    big = tier == 'thorough'
    yield from gen_serve_verdicts(rng, 6 if big else 2)
    yield from gen_serve_bounds(rng, [128, 100, 256] + ([77, 90, 129, 200] if big else []))
    yield from gen_serve(rng, 6000 if big else 500, bad=0.15, blocksizes=[128, 256, 100], maxwords=30)

def nontrivial(c):
    return True
