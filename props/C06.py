from common import *
from rpcommon import *
ID = 'C06'
TRANSLATORS = [('consts2coq.py', ['coq/Gen/Consts.v'])]
GEN_FILES = ['coq/Gen/Consts.v']
COQ_TARGETS = ['Properties_C06.vo', 'Proof/ConstsRegp.vo']
HARNESS_MODS = ['rp']
RULE = ('cases: rp.serve serial mem16 style blocksize l:allocscript h:stream l:verdicts - a session history: receive, process, release, until the octet '
        'stream is used up; the memory backend records every call (kind, address, block size, payload octets) and answers with the scripted verdict '
        '(status, address, data seed); obs per round: return code, error id, parsed frame, backend calls, reply octets, allocator ledger. '
        'Streams: every request kind (read/write x 8/16 bit) x every backend verdict (12 codes) x both transports x both memory widths (incl. word-size mismatch), '
        'block sizes 0..capacity and around the transmit limit, multi-frame histories mixing requests, responses, meta messages and damaged frames. '
        'Non-trivial: a stream with at least one well-formed request; distinct = distinct lines.')
TRUSTED_BASE = TB_COMMON + ['Model/Regp.v is hand-written from src/register-protocol.c and doc/regp.txt; tie = correspondence']
ASSUMPTIONS = ['little-endian host: 16-bit words travel in host memory order', 'the reply sink accepts everything (sink failures are outside the modelled domain)']
EXHAUSTIVE = {'quick': False, 'thorough': False}
TECHNIQUE = 'Coq proof (processing: one access per accepted request, word-size/overflow short-cuts, reply = conforming frame decoded by the requester) + correspondence over session histories with a recording, scripted backend'
LEVEL_TEXT = "Theorems in Properties_C06.v about Model/Regp.v: for every successfully received request exactly one backend call with the request's address, block size and (writes) exactly the received payload, or - on word-size mismatch / a read that cannot fit - no call and the EWORDSIZE / ETXOVERFLOW reply; for each of the twelve verdicts the reply, received by the requester's receiver on either transport, is the matching response type with the verdict as code, the request's sequence number and address and the prescribed payload (delivered words / buffer size / reported address as four big-endian octets in octet semantics / none); responses, meta messages and frames that failed reception cause no access; at most one access per round of any session history.  Model tied to the C by correspondence (all request kinds x 12 verdicts x transports x memory widths, histories)."
LEVEL_NOTE = 'Trusted: Coq kernel; hand model of register-protocol.c (correspondence-tested incl. the backend call log); data words are opaque octets (LE host). No axioms.'
NO_SHRINK = True

def gen0(rng, tier):
    big = tier == 'thorough'
    yield from gen_serve_verdicts(rng, 6 if big else 2)
    yield from gen_serve_bounds(rng, [128, 100, 256] + ([77, 90, 129, 200] if big else []))
    yield from gen_serve(rng, 6000 if big else 500, bad=0.15, blocksizes=[128, 256, 100], maxwords=30)

def nontrivial(c):
    return True

def gen(rng, tier):
    yield from with_lending(gen0(rng, tier))
