"""Shared generators for the register-table properties C01-C05 (reg.run cases)."""
import struct
from common import *

TYPES = ['u16', 'u32', 'u64', 's16', 's32', 's64', 'f32', 'f64']
TSIZE = [1, 2, 4, 1, 2, 4, 2, 4]
TBITS = [16 * s for s in TSIZE]

F32 = [0x00000000, 0x80000000, 0x00000001, 0x807fffff, 0x00800000, 0x7f7fffff, 0xff7fffff, 0x7f800000, 0xff800000,
       0x7fc00000, 0x7fa00001, 0xffc12345, 0x3f800000, 0xbf800000, 0x42f6e979, 0xc2f6e979, 0x3f000000]
F64 = [0, 1 << 63, 1, (1 << 63) | ((1 << 52) - 1), 1 << 52, 0x7fefffffffffffff, 0xffefffffffffffff, 0x7ff0000000000000,
       0xfff0000000000000, 0x7ff8000000000000, 0x7ff4000000000001, 0xfff8123456789abc, 0x3ff0000000000000,
       0xbff0000000000000, 0x405edd2f1a9fbe77, 0xc05edd2f1a9fbe77, 0x3fe0000000000000]

def tmask(t):
    return (1 << TBITS[t]) - 1

def to_signed(t, bits):
    w = TBITS[t]
    return bits - (1 << w) if bits >> (w - 1) else bits

def from_signed(t, v):
    return v & tmask(t)

def fnext(t, bits, d):
    """neighbouring bit pattern in the float order (no NaN handling needed for bounds)"""
    w = TBITS[t]; sign = bits >> (w - 1); mag = bits & ((1 << (w - 1)) - 1)
    key = -mag if sign else mag
    key += d
    if key < 0:
        return (1 << (w - 1)) | (-key)
    return key

def boundary_values(rng, t, check, extra=6):
    """values around the constraint's bounds, type extremes, float classes, random"""
    vs = set([0, 1, tmask(t), tmask(t) >> 1, (tmask(t) >> 1) + 1])
    bounds = []
    if check[0] in (2, 3):
        bounds = [check[1]]
    elif check[0] == 4:
        bounds = [check[1], check[2]]
    for b in bounds:
        if t >= 6:
            vs.update([b, fnext(t, b, 1) & tmask(t), fnext(t, b, -1) & tmask(t)])
        elif 3 <= t <= 5:
            s = to_signed(t, b)
            vs.update([from_signed(t, s), from_signed(t, s + 1), from_signed(t, s - 1)])
        else:
            vs.update([b, (b + 1) & tmask(t), (b - 1) & tmask(t)])
    if t == 6:
        vs.update(F32)
    if t == 7:
        vs.update(F64)
    for _ in range(extra):
        vs.add(rng.randrange(1 << TBITS[t]))
    return sorted(vs)

def rand_check(rng, t, kind=None):
    """(kind, a, b) with bounds such that some values pass"""
    k = rng.randrange(6) if kind is None else kind
    if k in (0, 1):
        return (k, 0, 0)
    if k == 5:
        return (5, rng.randrange(3), 0)
    if t >= 6:
        pats = [p for p in (F32 if t == 6 else F64) if not isnan(t, p) and not isinf(t, p)]
        a, b = sorted(rng.sample(pats, 2), key=lambda p: fkey(t, p))
    elif 3 <= t <= 5:
        lo = -(1 << (TBITS[t] - 1)); hi = (1 << (TBITS[t] - 1)) - 1
        x, y = sorted([rng.choice([lo, lo + 1, -1000, -1, 0, 1, 1000, hi - 1, hi, rng.randrange(lo, hi + 1)]) for _ in range(2)])
        a, b = from_signed(t, x), from_signed(t, y)
    else:
        x, y = sorted([rng.choice([0, 1, 10, 1000, tmask(t) - 1, tmask(t), rng.randrange(tmask(t) + 1)]) for _ in range(2)])
        a, b = x, y
    if k == 2:
        return (2, a, 0)
    if k == 3:
        return (3, b, 0)
    return (4, a, b)

def isnan(t, p):
    if t == 6:
        return (p >> 23) & 0xff == 0xff and p & 0x7fffff != 0
    return (p >> 52) & 0x7ff == 0x7ff and p & ((1 << 52) - 1) != 0

def isinf(t, p):
    if t == 6:
        return p & 0x7fffffff == 0x7f800000
    return p & ((1 << 63) - 1) == 0x7ff0000000000000

def fkey(t, p):
    w = TBITS[t]; mag = p & ((1 << (w - 1)) - 1)
    return -mag if p >> (w - 1) else mag

def acceptable_default(rng, t, check):
    """a default the register accepts (so that init succeeds)"""
    if check[0] == 5:
        k = check[1]
        for cand in ([0, 2, 6, 12, 30] if t < 6 else ([0] + (F32 if t == 6 else F64))):
            ok = (cand % 2 == 0) if k == 0 else (cand % 3 == 0) if k == 1 else cand != 0
            if ok and (t < 6 or (not isnan(t, cand) and not isinf(t, cand) and not subnormal(t, cand))):
                return cand
        return 6 if k != 2 else 6
    if check[0] == 2:
        return check[1]
    if check[0] == 3:
        return check[1]
    if check[0] == 4:
        return check[1]
    if t >= 6:
        return (F32 if t == 6 else F64)[12]
    return rng.choice([0, 1, 5, tmask(t)])

def subnormal(t, p):
    if t == 6:
        return (p >> 23) & 0xff == 0 and p & 0x7fffff != 0
    return (p >> 52) & 0x7ff == 0 and p & ((1 << 52) - 1) != 0

# area kinds: bit0 read callback, bit1 write callback, bit2 memory backed
MEM, CUSTOM, MEM_NOWRITE, MEM_NOREAD = 7, 3, 5, 6

TOP = False          # while set (see at_top) every table is shifted so that its highest area ends at 2^32 (last word at 0xffffffff)
SPACE = 2**32

class Table:
    def __init__(self, be, areas, entries, words=None):
        self.be = be; self.areas = areas; self.entries = entries
        self.words = words if words is not None else [0] * sum(a[1] for a in areas)
        self.top = TOP
    def line(self, ops):
        d = 0
        if self.top and self.areas:
            d = SPACE - max(a[0] + max(a[1], 1) for a in self.areas)      # every base stays representable (zero-size areas of C04)
        areas = [(a[0] + d,) + tuple(a[1:]) for a in self.areas]
        # a register whose address is not representable cannot be described (only malformed C04 tables have such entries)
        entries = [tuple(e[:2]) + (e[2] + d,) + tuple(e[3:]) for e in self.entries if e[2] + d < SPACE]
        fa = [x for a in areas for x in a]
        fe = [x for e in entries for x in e]
        fo = []
        for o in ops:
            if d and o[0] in (6, 7, 9):
                # block write / block read / iteration: (op, address, length, ...); requests that leave the address space are not generated
                if o[1] + d >= SPACE or o[1] + d + o[2] > SPACE:
                    continue
                o = (o[0], o[1] + d) + tuple(o[2:])
            fo += [o[0], len(o) - 1] + list(o[1:])
        return 'reg.run %d %s %s %s %s' % (self.be, lst(fa), lst(self.words), lst(fe), lst(fo))
    def window(self):
        lo = min(a[0] for a in self.areas); hi = max(a[0] + a[1] for a in self.areas)
        return max(0, lo - 2), hi + 2

def at_top(genf, rng, tier, limit):
    """the first `limit` cases of generator genf, with every table moved to the top of the address space (highest area ends at 2^32)"""
    global TOP
    import itertools, random
    sub = random.Random(rng.randrange(2**32))
    TOP = True
    try:
        lines = list(itertools.islice(genf(sub, tier), limit))
    finally:
        TOP = False
    return lines

def family_table(rng, nareas=None, regs=True):
    """a well-formed table of the small-scope family: 1-3 areas (adjacent or with gaps; RW/RO/WO; memory or callback backed),
    registers of sizes 1/2/4 at every alignment with every constraint kind"""
    na = nareas or rng.randrange(1, 4)
    be = rng.randrange(2)
    areas = []; base = rng.choice([0, 1, 16, 100, 0xfff0])
    for i in range(na):
        size = rng.choice([1, 2, 3, 4, 5, 6, 8, 9])
        flags = rng.choice([3, 3, 3, 1, 2, 7, 3])
        kind = rng.choice([MEM, MEM, CUSTOM, MEM, MEM_NOWRITE if flags == 1 else MEM, MEM])   # areas without a read callback are outside the domain (register_get calls it unconditionally)
        areas.append((base, size, flags, kind))
        base += size + rng.choice([0, 0, 1, 3])
    entries = []
    if regs:
        for ai, a in enumerate(areas):
            if na >= 2 and rng.random() < 0.3:
                continue                                   # an area without registers (its first/last/count fields are all zero)
            pos = a[0] + rng.choice([0, 0, 1])
            while pos < a[0] + a[1]:
                t = rng.choice([0, 1, 2, 3, 4, 5, 6, 7, 0, 1])
                if pos + TSIZE[t] > a[0] + a[1]:
                    t = 0
                writable_defaults = (a[3] & 2) and not (a[2] & 4)
                ck = rand_check(rng, t, None if writable_defaults else rng.choice([0, 2, 3, 4, 5]))
                if ck[0] == 1 and not writable_defaults:
                    ck = (0, 0, 0)
                entries.append((t, acceptable_default(rng, t, ck), pos, ck[0], ck[1], ck[2]))
                pos += TSIZE[t] + rng.choice([0, 0, 1, 2])
    words = [rng.randrange(65536) for _ in range(sum(a[1] for a in areas))]
    return Table(be, areas, entries, words)

def stale_state_histories(rng, count):
    """histories in which an operation ends early (a sanitise that cannot restore a register in a skip-defaults area whose default
    violates its own constraint; an initialisation-only default), followed by sets/gets on every register incl. always-fail ones:
    state left behind by the early exit must not change what later operations accept"""
    for _ in range(count):
        be = rng.randrange(2)
        t1 = rng.randrange(8); t2 = rng.choice([0, 1, 3, 4])
        ck1 = (1, 0, 0)                                     # always-fail register, default loads during initialisation only
        d1 = acceptable_default(rng, t1, (0, 0, 0))
        bad = rand_check(rng, t2, rng.choice([2, 4]))       # min / range constraint
        if 3 <= t2 <= 5:
            dflt = from_signed(t2, to_signed(t2, bad[1]) - 1)
        else:
            dflt = (bad[1] - 1) & tmask(t2)
        if (3 <= t2 <= 5 and to_signed(t2, dflt) >= to_signed(t2, bad[1])) or (t2 < 3 and dflt >= bad[1]):
            continue                                        # the bound was the type minimum: no violating default
        a1 = (100, TSIZE[t1] + 1, 3, rng.choice([MEM, CUSTOM]))
        a2 = (100 + TSIZE[t1] + 1 + rng.choice([0, 2]), TSIZE[t2] + 1, 7, MEM)   # skip-defaults area
        order = rng.randrange(2)
        if order:
            areas = [a1, a2]
            entries = [(t1, d1, a1[0], 1, 0, 0), (0, 3, a1[0] + TSIZE[t1], 0, 0, 0), (t2, dflt, a2[0], bad[0], bad[1], bad[2])]
            words = [rng.randrange(65536) for _ in range(a1[1])] + [rng.choice([0, 0xffff, rng.randrange(65536)]) for _ in range(a2[1])]
        else:
            a2 = (50, TSIZE[t2] + 1, 7, MEM)
            areas = [a2, a1]
            entries = [(t2, dflt, a2[0], bad[0], bad[1], bad[2]), (t1, d1, a1[0], 1, 0, 0), (0, 3, a1[0] + TSIZE[t1], 0, 0, 0)]
            words = [rng.choice([0, 0xffff, rng.randrange(65536)]) for _ in range(a2[1])] + [rng.randrange(65536) for _ in range(a1[1])]
        tab = Table(be, areas, entries, words)
        ne = len(entries)
        ops = [(0,)]
        def probe():
            o = []
            for j in range(ne):
                tj = entries[j][0]
                o += [(3, j), (1, j, tj, rng.choice([0, 1, 5, tmask(tj) >> 2])), (3, j), (4, j, tj, 1), (5, j, tj, 1), (3, j)]
            return o
        ops += probe()
        for _ in range(rng.randrange(1, 4)):
            ops += [(8,)] + probe()
            if rng.random() < 0.5:
                ops += [(10, rng.randrange(2), 0, rng.randrange(65536)), (8,)] + probe()
            if rng.random() < 0.3:
                ops += [(6, areas[0][0], 2, rng.randrange(65536), rng.randrange(65536))] + probe()
        yield tab.line(ops)

def reinit_histories(rng, count):
    """the SAME table object is initialised, its description edited by the caller (a register moved: op 11) and initialised again -
    successfully (the register now lives elsewhere, possibly in another area) or not (order / overlap / hole) - and every register,
    every window and the blocks are probed after each initialisation: nothing of the earlier initialisation may survive"""
    for _ in range(count):
        be = rng.randrange(2)
        # three adjacent or nearly adjacent areas, the middle one possibly empty
        sizes = [rng.choice([3, 4, 6]) for _ in range(3)]
        bases = [16]; bases.append(bases[0] + sizes[0] + rng.choice([0, 0, 2])); bases.append(bases[1] + sizes[1] + rng.choice([0, 0, 1]))
        areas = [(bases[i], sizes[i], 3, rng.choice([MEM, MEM, CUSTOM])) for i in range(3)]
        entries = []
        for i in (0, 2) if rng.random() < 0.5 else (0, 1, 2):
            pos = bases[i]
            for _k in range(rng.choice([1, 2])):
                t = rng.choice([0, 0, 1, 3])
                if pos + TSIZE[t] > bases[i] + sizes[i]:
                    break
                ck = rand_check(rng, t, rng.choice([0, 2, 3, 4]))
                entries.append((t, acceptable_default(rng, t, ck), pos, ck[0], ck[1], ck[2]))
                pos += TSIZE[t] + rng.choice([0, 1])
        if len(entries) < 2:
            continue
        tab = Table(be, areas, entries, [rng.randrange(65536) for _ in range(sum(sizes))])
        ne = len(entries); lo, hi = bases[0] - 1, bases[2] + sizes[2] + 1
        def probe():
            o = []
            for j in range(ne):
                o += [(3, j), (1, j, entries[j][0], rng.choice([0, 1, 5])), (3, j)]
            for _w in range(4):
                a = rng.randrange(lo, hi); n = rng.randrange(1, hi - a + 1)
                o += [(9, a, n), (7, a, rng.randrange(1, 5))]
            o += [(9, bases[0], hi - bases[0]), (9, bases[1], sizes[1] + 2), (6, bases[0], 1, 1), (8,), (4, 0, entries[0][0], 1)]
            return o
        ops = [(0,)] + probe()
        addr = [e[2] for e in entries]
        for _r in range(rng.randrange(1, 4)):
            k = rng.randrange(ne)
            choice = rng.randrange(5)
            if choice == 0 and k + 1 < ne:      # onto the next register: overlap / order violation
                new = addr[k + 1]
            elif choice == 1 and k > 0:         # below its predecessor: order violation
                new = max(0, addr[k - 1] - rng.choice([0, 1]))
            elif choice == 2:                   # into a hole / outside every area
                new = rng.choice([bases[2] + sizes[2] + 3, 0, bases[0] + sizes[0]])
            elif choice == 3:                   # the last register of an area moves to the start of the next area (or back)
                ai = max(i for i in range(3) if bases[i] <= addr[k]) if any(bases[i] <= addr[k] for i in range(3)) else 0
                new = bases[min(ai + 1, 2)] if rng.random() < 0.7 else bases[max(ai - 1, 0)] + sizes[max(ai - 1, 0)] - TSIZE[entries[k][0]]
            else:
                new = addr[k] + rng.choice([-1, 1, 2])
            new = max(0, new) & 0xffff
            addr[k] = new
            ops += [(11, k, new), (0,)] + probe()
            if rng.random() < 0.25:
                ops += [(12, rng.randrange(2))] + probe()      # the byte order switched in mid-life: the same words read the other way
            if rng.random() < 0.3:
                ops += [(0,)] + probe()
        yield tab.line(ops)
