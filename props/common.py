"""Shared bits of the per-property descriptions."""
TB_COMMON = [
    'Coq 8.16.1 kernel incl. its vm_compute machine (finite sweeps, closed evaluations); native_compute not used',
    'extraction to OCaml (ExtrOcamlBasic + ExtrOcamlString only, no Extract Constant/Inductive of our own) and ocamlfind ocamlopt, for the correspondence run only',
    'C harness (harness/*.c), gcc 12 with ASan+UBSan at -O1 as the oracle of what the implementation does; library compiled with -DNDEBUG off, tests use -O2 -DNDEBUG',
    'tools/*.py translators and clang 14 JSON AST dump (data model LP64, little-endian host)',
]

def hexs(bs):
    return 'h:' + ''.join('%02x' % b for b in bs)

def lst(xs):
    return 'l:' + ','.join(str(x) for x in xs)

# every translator runs on every check (so that no generated file is ever stale);
# a failure breaks only the properties that list the translator as their own
ALL_TRANSLATORS = [('crc2coq.py', ['coq/Gen/CrcGen.v']), ('consts2coq.py', ['coq/Gen/Consts.v']), ('bf2coq.py', ['coq/Gen']), ('bfproofs.py', ['coq/Gen']), ('reg2coq.py', ['coq/Gen/RegLeafGen.v']), ('regp2coq.py', ['coq/Gen/RegpMotvGen.v'])]
