from common import *
from rpcommon import *
ID = 'C09'
TRANSLATORS = [('consts2coq.py', ['coq/Gen/Consts.v'])]
GEN_FILES = ['coq/Gen/Consts.v']
COQ_TARGETS = ['Properties_C09.vo', 'Proof/ConstsRegp.vo']
HARNESS_MODS = ['rp']
RULE = 'cases: rp.serve serial mem16 style blocksize l:allocscript h:stream l:verdicts (style 0 chunk / 1 octet source; 2 / 3: every length-prefix case is served again from a chunk source that lends a 5- / 64-octet transfer buffer through the getbuffer extension, so that the receive sink sees multi-octet chunks) - session histories on exact-size heap blocks handed out by a scripted, ledger-keeping allocator (ASan sees every access outside the block; the backend fills/reads exactly unit*blocksize octets of the buffer it is given); obs per round: return code, error id, frame, backend calls, reply octets, allocations, releases, foreign releases, blocks outstanding at the end.  Streams: every frame length around the receive limit and every read size around the transmit limit (and at 2^16, 2^24, 2^30, 2^31, 2^32-1) for block sizes 65.. , with and without allocation failure, short and empty frames, random and mutated-valid streams, every option-bit combination.  Non-trivial: every case; distinct = distinct lines.'
TRUSTED_BASE = TB_COMMON + ['Model/Regp.v is hand-written from src/register-protocol.c, src/endpoints/continuable-sink.c and doc/regp.txt; tie = correspondence']
ASSUMPTIONS = ['little-endian host']
EXHAUSTIVE = {'quick': False, 'thorough': False}
TECHNIQUE = 'Coq proof (reception case analysis, allocator ledger, stored-inside-block and buffer-size arithmetic, session balance by induction over rounds) + correspondence under ASan/UBSan with a ledger-keeping allocator'
LEVEL_TEXT = "Theorems in Properties_C09.v about Model/Regp.v for any source, block size and allocator verdict: the complete case analysis of a reception (channel error -> block released by the receiver; empty frame -> bad header encoding, nothing allocated; allocation failure -> EBUSY reply; oversize frame -> ENOMEM + receive-overflow reply from the stored header octets; else the parser's verdict); every allocated block is released exactly once (receiver on channel error, caller otherwise); accepted frames lie inside the block; the read buffer handed to the backend holds the requested block and lies behind the header inside the block, otherwise ETXOVERFLOW with the buffer size; allocations = releases after every round of any session history.  Real memory accesses, crashes and hangs of the compiled code are observed by ASan/UBSan and the driver timeout on the executed cases only (partial: the model carries the index arithmetic, not the C memory model)."
LEVEL_NOTE = 'Partial: memory safety of the compiled code is observed (ASan/UBSan) on executed cases; the theorems cover index arithmetic, classification and the ledger. Trusted: Coq kernel; hand model; correspondence. No axioms.'

def gen0(rng, tier):
    big = tier == 'thorough'
    yield from gen_serve_bounds(rng, [65, 66, 76, 77, 78, 79, 80, 81, 82, 96, 128] + ([67, 70, 90, 100, 129, 200, 256, 1024] if big else []))
    yield from gen_serve(rng, 6000 if big else 400)
    yield from gen_serve_opts(rng, 6000 if big else 400)
    yield from gen_serve_verdicts(rng, 4 if big else 1)

def nontrivial(c):
    return True

def gen(rng, tier):
    yield from with_lending(gen0(rng, tier))
