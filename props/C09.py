from common import *
from rpcommon import *
ID = 'C09'
TRANSLATORS = []
COQ_TARGETS = ['Corr/Dispatch.vo']
HARNESS_MODS = ['rp']
RULE = ('wip')
TRUSTED_BASE = TB_COMMON + ['Model/Regp.v is hand-written from src/register-protocol.c, src/endpoints/continuable-sink.c and doc/regp.txt; tie = correspondence']
ASSUMPTIONS = ['little-endian host']
EXHAUSTIVE = {'quick': False, 'thorough': False}
TECHNIQUE = 'Coq proof + correspondence'
LEVEL_TEXT = 'wip'
LEVEL_NOTE = 'wip'

def gen(rng, tier):
    big = tier == 'thorough'
    yield from gen_serve_bounds(rng, [65, 66, 76, 77, 78, 79, 80, 81, 82, 96, 128] + ([67, 70, 90, 100, 129, 200, 256, 1024] if big else []))
    yield from gen_serve(rng, 6000 if big else 400)
    yield from gen_serve_opts(rng, 6000 if big else 400)
    yield from gen_serve_verdicts(rng, 4 if big else 1)

def nontrivial(c):
    return True
