from common import *
from regcommon import *
import C01
ID = 'C02'
TRANSLATORS = [('consts2coq.py', ['coq/Gen/Consts.v']), ('reg2coq.py', ['coq/Gen/RegLeafGen.v'])]
GEN_FILES = ['coq/Gen/Consts.v', 'coq/Gen/RegLeafGen.v']
COQ_TARGETS = ['Properties_C02.vo', 'Proof/ConstsReg.vo', 'Proof/RegLeafT.vo']
HARNESS_MODS = ['reg']
RULE = ('reg.run cases (see C01) whose operations are block writes: tables from the small-scope family (1-3 areas adjacent or with gaps, RW/RO/WO, memory/callback backed; u16/u32/u64/signed/float '
        'registers with every constraint kind at every alignment), EVERY (address, length) in a window from 2 below the lowest base to 2 above the highest end, word patterns all-zero, all-ones, '
        'current content, boundary values of each overlapped register\'s constraint split into words, NaN/inf/subnormal halves, random; repeated over evolving contents.  The caller buffer is an '
        'exact-size heap block of n words.  Observation per write: code and address, every word of every area, touched flags.')
TRUSTED_BASE = C01.TRUSTED_BASE
ASSUMPTIONS = C01.ASSUMPTIONS + ['requests that run past the last address (addr + n > 2^32) are generated only as block reads over tables whose first unmapped address is representable; wrapping block writes and iterations are not generated', 'areas always have a read callback (block validation reads the current register content through it)']
EXHAUSTIVE = {'quick': False, 'thorough': False}
NO_SHRINK = True
TECHNIQUE = 'Coq proof (all-or-nothing and frame of block writes, failure classes and first failing address) + correspondence over every window position of the small-scope table family'
LEVEL_TEXT = ('Theorems in Properties_C02.v: a failed block write changes nothing (atomicity); the failure classes in their order with the READONLY / NOENTRY addresses; success implies every address mapped, no read-only area touched, every overlapped register decodes and validates after the overlay and is marked touched; and for tables whose areas are ordered, disjoint and full the exact word image of a successful write across area borders: every address of the request holds the written word, every other address its old word, geometry unchanged (flat word-memory abstraction word_at, general theorem about write_words).  Model tied to the C by correspondence.')
LEVEL_NOTE = 'Trusted: Coq kernel; hand model of registers/core.c block write path (declarative overlay; correspondence-tested on every window); ASan for the caller buffer and raw[4]. No axioms. Translator tie: ra_range_touches and ra_addr_is_part_of of src/registers/core.c, translated on every check (tools/reg2coq.py), are proved equal to the predicates of the model for every area and request inside the 32-bit address space (Proof/RegLeafT.v).'

def patterns(rng, tab, addr, n):
    yield [0] * n
    yield [0xffff] * n
    yield [rng.randrange(65536) for _ in range(n)]
    # words taken from boundary values of the overlapped registers
    ws = [rng.randrange(65536) for _ in range(n)]
    for e in tab.entries:
        t = e[0]
        if e[2] < addr + n and addr < e[2] + TSIZE[t]:
            vals = boundary_values(rng, t, (e[3], e[4], e[5]), 1)
            v = rng.choice(vals)
            k = 2 * TSIZE[t]
            bs = [(v >> (8 * i)) & 255 for i in range(k)]
            if tab.be:
                bs = bs[::-1]
            words = [bs[2 * i] | (bs[2 * i + 1] << 8) for i in range(TSIZE[t])]
            for i in range(TSIZE[t]):
                a = e[2] + i
                if addr <= a < addr + n:
                    ws[a - addr] = words[i]
    yield ws

def gen(rng, tier):
    big = tier == 'thorough'
    for _ in range(300 if big else 80):
        tab = family_table(rng)
        lo, hi = tab.window()
        ops = [(0,)]
        for addr in range(lo, hi + 1):
            for n in range(0, min(hi - addr + 2, 9)):
                pats = list(patterns(rng, tab, addr, n)) if n else [[]]
                for ws in (pats if big else rng.sample(pats, min(len(pats), 2))):
                    ops.append((6, addr, n) + tuple(ws))
            if len(ops) > 250:
                yield tab.line(ops); ops = [(0,)]
        if len(ops) > 1:
            yield tab.line(ops)

def words_of(be, t, v):
    k = 2 * TSIZE[t]
    bs = [(v >> (8 * i)) & 255 for i in range(k)]
    if be:
        bs = bs[::-1]
    return [bs[2 * i] | (bs[2 * i + 1] << 8) for i in range(TSIZE[t])]

def typed_grid(rng, big):
    """every register type x every constraint kind x both byte orders: block writes that cover the register fully (every boundary
    value, all float classes) and partially (each proper sub-window, old words kept), with unconstrained neighbours"""
    for t in range(8):
        for be in (0, 1):
            for ck_kind in range(6):
                ck = rand_check(rng, t, ck_kind)
                size = TSIZE[t] + 2
                kind = rng.choice([MEM, MEM, CUSTOM])
                d = acceptable_default(rng, t, ck)
                entries = [(0, 7, 100, 0, 0, 0), (t, d, 101, ck[0], ck[1], ck[2]), (0, 9, 101 + TSIZE[t], 0, 0, 0)]
                tab = Table(be, [(100, size, 3, kind)], entries, [rng.randrange(65536) for _ in range(size)])
                ops = [(0,)]
                vals = boundary_values(rng, t, ck, 8 if big else 3)
                for v in vals:
                    ws = words_of(be, t, v)
                    ops.append((6, 101, TSIZE[t]) + tuple(ws))
                    ops.append((6, 100, size, 1) + tuple(ws) + (2,))
                    for lo in range(TSIZE[t]):
                        for hi in range(lo + 1, TSIZE[t] + 1):
                            if (lo, hi) != (0, TSIZE[t]) and rng.random() < (1.0 if big else 0.4):
                                ops.append((6, 101 + lo, hi - lo) + tuple(ws[lo:hi]))
                    if len(ops) > 300:
                        yield tab.line(ops); ops = [(0,)]
                if len(ops) > 1:
                    yield tab.line(ops)

_gen0 = gen
def gen(rng, tier):
    yield from _gen0(rng, tier)
    yield from typed_grid(rng, tier == 'thorough')
    # a sanitise that ends early, then block writes over every register (always-fail ones included)
    yield from stale_state_histories(rng, 200 if tier == 'thorough' else 40)
    # the same window sweeps over tables whose highest area ends at 2^32 (end addresses are not representable in 32 bits)
    yield from at_top(_gen0, rng, tier, 120 if tier == 'thorough' else 25)

def nontrivial(c):
    return True
