from common import *
ID = 'C16'
TRANSLATORS = [('crc2coq.py', ['coq/Gen/CrcGen.v'])]
GEN_FILES = ['coq/Gen/CrcGen.v']
COQ_TARGETS = ['Properties_C16.vo']
HARNESS_MODS = ['crc']
RULE = ('cases: crc.bytes (start value, octet string) / crc.split (same + split position: whole vs continued) / '
        'crc.u16 (start, 16-bit words); generated from VERIF_SEED: all 256 single octets from boundary states, '
        'all (state,octet) pairs for sampled states, random buffers up to 4 KiB split at every position (short) or '
        'sampled positions (long), word buffers of every length 0..64.  A case is non-trivial when its input is '
        'non-empty; distinct = distinct case lines.  Observation = returned checksum(s), compared with the '
        'bit-serial CRC-16/ARC specification (Model/Crc.v spec_crc) evaluated by the extracted model.')
TRUSTED_BASE = TB_COMMON + ['tools/crc2coq.py: crc16_table[], crc16_octet() and the octet order of ufw_crc16_arc_u16 are translated from src/crc-16-arc.c on every run; the three loops are hand-modelled as folds (Model/Crc.v) and tied by correspondence']
ASSUMPTIONS = ['host is little-endian with 8-bit bytes (u16 variant: in-memory image = low octet first)',
               'loops of ufw_crc16_arc/_u16 modelled as fold_left; tie = correspondence run']
EXHAUSTIVE = {'quick': False, 'thorough': False}

def nontrivial(c):
    t = c.split(' ')
    return len(t) > 2 and t[2] not in ('h:', 'l:')

def gen(rng, tier):
    big = tier == 'thorough'
    states = [0, 1, 0xffff, 0x8000, 0xa001, 0x00ff, 0xff00] + [rng.randrange(65536) for _ in range(40 if big else 8)]
    # every octet from each of those states (1-octet buffers), and 2-octet buffers
    for s in states:
        for d in range(256):
            yield 'crc.bytes %d %s' % (s, hexs([d]))
    if big:
        # all 2^24 (state, octet) pairs are swept on the implementation by crc.sweep (implementation-only predicate)
        for s in range(0, 65536, 1):
            yield 'crc.bytes %d %s' % (s, hexs([rng.randrange(256), rng.randrange(256)]))
    for s in states[:8]:
        for _ in range(200 if big else 40):
            yield 'crc.bytes %d %s' % (s, hexs([rng.randrange(256), rng.randrange(256)]))
    yield 'crc.bytes 0 h:'
    yield 'crc.bytes 65535 h:'
    yield 'crc.bytes 0 ' + hexs(b'123456789')
    # random buffers split at every position
    for _ in range(60 if big else 12):
        n = rng.choice([1, 2, 3, 7, 8, 9, 31, 64, 100])
        buf = [rng.randrange(256) for _ in range(n)]
        s = rng.choice(states)
        for k in range(n + 1):
            yield 'crc.split %d %s %d' % (s, hexs(buf), k)
    for _ in range(40 if big else 6):
        n = rng.choice([255, 256, 1000, 4095, 4096])
        buf = [rng.choice([0, 255, rng.randrange(256), rng.randrange(256)]) for _ in range(n)]
        s = rng.choice(states)
        for k in [0, 1, n // 2, n - 1, n] + [rng.randrange(n + 1) for _ in range(6)]:
            yield 'crc.split %d %s %d' % (s, hexs(buf), k)
    # word buffers at all lengths 0..64
    for n in range(65):
        for _ in range(8 if big else 2):
            s = rng.choice(states)
            ws = [rng.choice([0, 0xffff, 0x00ff, 0xff00, rng.randrange(65536)]) for _ in range(n)]
            yield 'crc.u16 %d %s' % (s, lst(ws))

TECHNIQUE = 'Coq proof (translated table + octet step = bit-serial CRC-16/ARC via xor-linearity and 256-point sweeps; fold lemmas) + translator tie + correspondence vs spec'
LEVEL_TEXT = ('Theorems C16_table/C16_octet/C16_bytes/C16_concat/C16_u16 (Properties_C16.v, closed under the global context) hold for every octet '
              'sequence, start value and word list; table and octet step are re-translated from src/crc-16-arc.c on every run so the proofs are re-checked '
              'against the current source; the loops are tied by a correspondence run against the bit-serial specification.')
LEVEL_NOTE = ('Trusted: Coq kernel + vm_compute; crc2coq.py/clang AST; loops modelled as folds (correspondence-tested, not proved about the C); '
              'little-endian host for the u16 variant; extraction + harness for the correspondence run. No axioms.')

def _buf_cases(rng, big):
    for n in list(range(0, 20)) + [63, 64, 65, 255, 256, 1000]:
        for _ in range(4 if big else 2):
            yield 'crc.buf %s' % hexs([rng.choice([0, 0xff, rng.randrange(256)]) for _ in range(n)])

_gen_core = gen
def gen(rng, tier):
    yield from _gen_core(rng, tier)
    yield from _buf_cases(rng, tier == 'thorough')

