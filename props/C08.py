from common import *
from rpcommon import *
ID = 'C08'
TRANSLATORS = [('consts2coq.py', ['coq/Gen/Consts.v']), ('regp2coq.py', ['coq/Gen/RegpMotvGen.v'])]
GEN_FILES = ['coq/Gen/Consts.v', 'coq/Gen/RegpMotvGen.v']
COQ_TARGETS = ['Properties_C08.vo', 'Proof/ConstsRegp.vo', 'Proof/RegpMotvT.vo']
HARNESS_MODS = ['rp']
RULE = ('cases: rp.emit serial mem16 seq kind ftype fseq addr n val payload (kind: 0/1 read request 8/16 bit, 2/3 write request 8/16 bit, 4 acknowledge, '
        '10+code error response, 30 meta; obs: return code, next sequence number, wire octets, then what the library\'s own receiver on the same transport '
        'makes of them: error id, type, option bits, code, sequence, address, block size, payload octets, reply octets, unread rest, blocks still allocated). '
        'Addresses/sequence numbers/payload octets include SLIP control characters, payload lengths cross the varint boundary (frame length 127/128). '
        'Non-trivial: every case; distinct = distinct lines.')
TRUSTED_BASE = TB_COMMON + ['Model/Regp.v is hand-written from src/register-protocol.c and doc/regp.txt; tie = correspondence']
ASSUMPTIONS = ['little-endian host: 16-bit payload words travel in host memory order', 'block sizes below 2^32']
EXHAUSTIVE = {'quick': False, 'thorough': False}
TECHNIQUE = 'Coq proof (header round trip, acceptance by the own receiver, equality with the independent octet-level reading of the document, SLIP/varint deframing, sequence numbers) + correspondence of every emitter'
LEVEL_TEXT = "Theorems in Properties_C08.v: every emitter (read/write requests 8/16 bit, acknowledge with/without payload, eleven error responses, meta) on either transport sends framing(header ++ payload) of a conforming frame; the receiver model deframes it (SLIP incl. control characters in any field, varint prefix of any length), parses back type, option bits, code, sequence number, address, block size, payload and accepts it, sending nothing; header ++ payload equal the octets prescribed by the independent reading of doc/regp.txt (big-endian fields, CRC-16/ARC header/payload checksums exactly on serial, payload checksum only with payload); the k-th request of a session carries sequence start+k mod 2^16.  Model tied to the C by correspondence (wire image and the own receiver's result per emitter)."
LEVEL_NOTE = 'Trusted: Coq kernel; hand model of register-protocol.c + hand-written reading of doc/regp.txt; SLIP and varint specifications shared with C12/C14; correspondence. Block sizes < 2^32. No axioms. Translator tie: make_motv of src/register-protocol.c (first header word of every emitted frame), translated on every check (tools/regp2coq.py), is proved equal to the make_motv of the model for every frame type, meta code, memory semantics, memory type, transport and block size (Proof/RegpMotvSweep.v, Proof/RegpMotvT.v).'

def gen(rng, tier):
    for l in gen_emit(rng, 60 if tier == 'thorough' else 6):
        yield l
        # the same emission from an instance that was re-attached (channel, memory, allocator: same arguments) after its session
        # had started: reconfiguration must not disturb the sequence numbering
        t = l.split(' ')
        if t[0] == 'rp.emit' and t[3] != '0':
            yield ' '.join(t[:1] + [str(int(t[1]) + 2)] + t[2:])

def nontrivial(c):
    return True
