from common import *
from rpcommon import *
ID = 'C08'
TRANSLATORS = []
COQ_TARGETS = ['Corr/Dispatch.vo']
HARNESS_MODS = ['rp']
RULE = ('cases: rp.emit serial mem16 seq kind ftype fseq addr n val payload (kind: 0/1 read request 8/16 bit, 2/3 write request 8/16 bit, 4 acknowledge, '
        '10+code error response, 30 meta; obs: return code, next sequence number, wire octets, then what the library\'s own receiver on the same transport '
        'makes of them: error id, type, option bits, code, sequence, address, block size, payload octets, reply octets, unread rest, blocks still allocated). '
        'Addresses/sequence numbers/payload octets include SLIP control characters, payload lengths cross the varint boundary (frame length 127/128). '
        'Non-trivial: every case; distinct = distinct lines.')
TRUSTED_BASE = TB_COMMON + ['Model/Regp.v is hand-written from src/register-protocol.c and doc/regp.txt; tie = correspondence']
ASSUMPTIONS = ['little-endian host: 16-bit payload words travel in host memory order', 'block sizes below 2^32']
EXHAUSTIVE = {'quick': False, 'thorough': False}
TECHNIQUE = 'Coq proof + correspondence'
LEVEL_TEXT = 'wip'
LEVEL_NOTE = 'wip'

def gen(rng, tier):
    yield from gen_emit(rng, 60 if tier == 'thorough' else 6)

def nontrivial(c):
    return True
