from common import *
ID = 'C15'
TRANSLATORS = [('bf2coq.py', ['coq/Gen']), ('bfproofs.py', ['coq/Gen'])]
GEN_FILES = ['coq/Gen/BfGen_LB.v', 'coq/Gen/BfGen_LM.v', 'coq/Gen/BfGen_BM.v', 'coq/Gen/BfProofs_LB.v', 'coq/Gen/BfProofs_LM.v', 'coq/Gen/BfProofs_BM.v']
COQ_TARGETS = ['Properties_C15.vo']
HARNESS_MODS = ['bf']
RULE = ('cases: bf.self cfg name class width order memory position value (model side only: the function as TRANSLATED for the little-endian/mask-swap and the big-endian/mask-swap configuration against its specification - the source of a concrete failing input when a generated proof breaks; the implementation side is the constant "agree"); bf.ref <function> <memory> <position> / bf.set <function> <memory> <position> <value> (obs: whole memory image afterwards - neighbouring octets are canaries - and the returned '
        'pointer as an offset) / bf.int <function> <value> (swaps and range predicates), for all 111 functions of binary-format.h; the model side evaluates the functions TRANSLATED from the '
        'header for the build\'s configuration (LB), i.e. this run also validates the translator on the host.  Values: all single-bit values, every octet lane x {00,01,7f,80,ff}, '
        'boundaries of each width (2^(w-1) +-1, 2^w +-1), float classes as bit patterns (zeros, subnormals, infinities, quiet/signalling NaNs with payloads), random; every alignment offset 0..7; '
        '16-bit values exhaustively for the 16-bit functions.  Non-trivial: every case.')
TRUSTED_BASE = TB_COMMON + ['tools/bf2coq.py translates all 111 functions syntactically from the clang AST for three configurations; the build configuration is additionally run against the compiled header on every check; __builtin_bswapN is modelled as octet reversal; union punning and float passing are modelled on bit patterns; the big-endian configuration is proof-only (not executable on this host)']
ASSUMPTIONS = ['LP64 data model, 8-bit bytes; float/double arguments are identified with their IEEE-754 bit patterns (no FPU canonicalisation when passed by value: checked on the host for NaN payloads)']
EXHAUSTIVE = {'quick': False, 'thorough': False}
NO_SHRINK = True   # shrinking the memory argument would move the access out of the block
TECHNIQUE = 'translator (clang AST -> Coq) + Coq proof for all 111 functions in 3 configurations (symbolic byte moves; mask-and-shift swaps via lor-homomorphism lifting from single-bit evaluations) + correspondence on the host configuration'
LEVEL_TEXT = ('Properties_C15.v: for each configuration (little-endian+builtin swap = the build, little-endian+mask swap, big-endian+mask swap) every bf_set_* writes exactly width/8 octets in the named order '
              'leaving all others untouched and returns the position just past them, every bf_ref_* returns the value of those octets (sign-extended for signed kinds, bit-identical for floats), '
              'swaps reverse exactly the low width/8 octets and are involutions, range predicates accept exactly the representable values.  The functions are re-translated from the header on every run.')
LEVEL_NOTE = 'Trusted: Coq kernel incl. vm_compute (single-bit sweeps); bf2coq.py + clang AST (host configuration cross-checked by execution); builtin bswap, union punning, float passing modelled. No axioms.'

W = [16, 24, 32, 40, 48, 56, 64]
def T(w): return 16 if w == 16 else 32 if w <= 32 else 64

def values(rng, w, big):
    t = T(w)
    vs = set([0, 1, 2**w - 1, 2**(w - 1), 2**(w - 1) - 1, 2**(w - 1) + 1, 2**t - 1, (2**w) % 2**t, (2**w + 1) % 2**t])
    for i in range(t):
        vs.add(2**i)
    for lane in range(t // 8):
        for b in (0x01, 0x7f, 0x80, 0xff):
            vs.add(b << (8 * lane))
    for _ in range(200 if big else 20):
        vs.add(rng.randrange(2**t)); vs.add(rng.randrange(2**w))
    if w == 16:
        vs.update(range(0, 65536, 1 if big else 257))
    return sorted(vs)

F32 = [0x00000000, 0x80000000, 0x00000001, 0x007fffff, 0x00800000, 0x7f7fffff, 0x7f800000, 0xff800000, 0x7fc00000, 0x7fa00001, 0xffc12345, 0x7f800001, 0x3f800000, 0xc2f6e979]
F64 = [0, 1 << 63, 1, (1 << 52) - 1, 1 << 52, 0x7fefffffffffffff, 0x7ff0000000000000, 0xfff0000000000000, 0x7ff8000000000000, 0x7ff4000000000001, 0xfff8123456789abc, 0x7ff0000000000001, 0x3ff0000000000000]

def gen(rng, tier):
    big = tier == 'thorough'
    for w in W:
        k = w // 8; t = T(w)
        yield 'bf.int s:bf_swap%d %d' % (w, 0)
        for v in values(rng, w, big):
            yield 'bf.int s:bf_swap%d %d' % (w, v)
            if w in (24, 40, 48, 56):
                yield 'bf.int s:bf_inrange_u%d %d' % (w, v)
                sv = v - 2**t if v >= 2**(t - 1) else v
                yield 'bf.int s:bf_inrange_s%d %d' % (w, sv)
                for d in (-1, 0, 1):
                    yield 'bf.int s:bf_inrange_s%d %d' % (w, -2**(w - 1) + d)
                    yield 'bf.int s:bf_inrange_s%d %d' % (w, 2**(w - 1) + d)
            for od in 'nbl':
                off = rng.randrange(8)
                mem = [0xA0 + i for i in range(off)] + [0xEE] * k + [0xB0 + i for i in range(3)]
                yield 'bf.set s:bf_set_u%d%s %s %d %d' % (w, od, hexs(mem), off, v)
                sv = v - 2**t if v >= 2**(t - 1) else v
                yield 'bf.set s:bf_set_s%d%s %s %d %d' % (w, od, hexs(mem), off, sv)
                # load the same octets back
                bs = [(v >> (8 * i)) & 255 for i in range(k)]
                mem2 = [rng.randrange(256) for _ in range(off)] + bs + [rng.randrange(256) for _ in range(2)]
                yield 'bf.ref s:bf_ref_u%d%s %s %d' % (w, od, hexs(mem2), off)
                yield 'bf.ref s:bf_ref_s%d%s %s %d' % (w, od, hexs(mem2), off)
        # every alignment
        for off in range(8):
            for od in 'nbl':
                mem = [rng.randrange(256) for _ in range(off + k + 2)]
                yield 'bf.ref s:bf_ref_u%d%s %s %d' % (w, od, hexs(mem), off)
                yield 'bf.ref s:bf_ref_s%d%s %s %d' % (w, od, hexs(mem), off)
                yield 'bf.set s:bf_set_u%d%s %s %d %d' % (w, od, hexs(mem), off, rng.randrange(2**t))
    for fw, pats in ((32, F32), (64, F64)):
        k = fw // 8
        for v in pats + [rng.randrange(2**fw) for _ in range(100 if big else 20)]:
            for od in 'nbl':
                off = rng.randrange(8)
                mem = [0xEE] * (off + k + 2)
                yield 'bf.set s:bf_set_f%d%s %s %d %d' % (fw, od, hexs(mem), off, v)
                bs = [(v >> (8 * i)) & 255 for i in range(k)]
                for order in (bs, bs[::-1]):
                    yield 'bf.ref s:bf_ref_f%d%s %s %d' % (fw, od, hexs([1] * off + order + [2]), off)

    # the other two configurations (little-endian with mask swaps, big-endian with mask swaps), which the host cannot run:
    # the translated functions against their specification, on the model side only; this is where a concrete failing input comes from
    # when a proof of Gen/BfProofs_LM.v / BfProofs_BM.v breaks
    for cfg in (1, 2):
        for w in W:
            k = w // 8; t = T(w)
            vals = values(rng, w, False)
            pick = vals if big else rng.sample(vals, min(len(vals), 24)) + [0, 2**w - 1, 2**(w - 1), 2**t - 1]
            for v in pick:
                yield 'bf.self %d s:bf_swap%d 4 %d 0 h: 0 %d' % (cfg, w, w, v)
                if w in (24, 40, 48, 56):
                    yield 'bf.self %d s:bf_inrange_u%d 5 %d 0 h: 0 %d' % (cfg, w, w, v)
                    sv = v - 2**t if v >= 2**(t - 1) else v
                    yield 'bf.self %d s:bf_inrange_s%d 6 %d 0 h: 0 %d' % (cfg, w, w, sv)
                for oi, od in enumerate('nbl'):
                    off = rng.randrange(4)
                    mem = [0xA0 + i for i in range(off)] + [0xEE] * k + [0xB0, 0xB1]
                    yield 'bf.self %d s:bf_set_u%d%s 3 %d %d %s %d %d' % (cfg, w, od, w, oi, hexs(mem), off, v)
                    sv = v - 2**t if v >= 2**(t - 1) else v
                    yield 'bf.self %d s:bf_set_s%d%s 3 %d %d %s %d %d' % (cfg, w, od, w, oi, hexs(mem), off, sv)
                    bs = [(v >> (8 * i)) & 255 for i in range(k)]
                    mem2 = [rng.randrange(256) for _ in range(off)] + bs + [rng.randrange(256) for _ in range(2)]
                    yield 'bf.self %d s:bf_ref_u%d%s 0 %d %d %s %d 0' % (cfg, w, od, w, oi, hexs(mem2), off)
                    yield 'bf.self %d s:bf_ref_s%d%s 1 %d %d %s %d 0' % (cfg, w, od, w, oi, hexs(mem2), off)
                    if w in (32, 64):
                        yield 'bf.self %d s:bf_ref_f%d%s 2 %d %d %s %d 0' % (cfg, w, od, w, oi, hexs(mem2), off)
                        yield 'bf.self %d s:bf_set_f%d%s 3 %d %d %s %d %d' % (cfg, w, od, w, oi, hexs(mem), off, v % 2**w)

def nontrivial(c):
    return True
