from common import *
import C10
ID = 'C11'
TRANSLATORS = []
COQ_TARGETS = ['Properties_C11.vo']
HARNESS_MODS = ['ps']
RULE = ('same ps.run cases as C10 but with fault scripts: (a) crash points - for every store/part store of the reduced C10 grid the write script [ok]*k ++ [short j] for every '
        'write-call prefix k and every tear offset j of the next write, followed by validate and fetch on the cut medium; (c) the crash points of (a) again on regions whose last octet is 0xffffffff; (b) a single failed (0) or short transfer injected at '
        'every read-call and every write-call position of store, store_part, validate, fetch, fetch_part and reset.  Observation: access code of every operation, medium image after '
        'the cut, result of validate/fetch afterwards.  Non-trivial: the injected fault is reached (counted by the call position being below the number of calls of the fault-free run).')
TRUSTED_BASE = C10.TRUSTED_BASE
ASSUMPTIONS = C10.ASSUMPTIONS + ['a crash is modelled as a prefix of the medium write calls with octet-granular tearing of the last one; physical media (page erase, bit-level tearing) are not modelled']
EXHAUSTIVE = {'quick': False, 'thorough': False}
TECHNIQUE = 'Coq proof (validation = checksum matches data on the medium; whole-write crash points give old or new image; no non-IO_ERROR result with a short transfer in the log, for any fault script) + correspondence with crash/fault enumeration'
LEVEL_TEXT = ('Properties_C11.v: a successful validation implies checksum-on-medium = algorithm(data-on-medium); a store cut before/after its data write leaves exactly the previous/new data image '
              'and returns IO_ERROR; a data or checksum write TORN after k octets returns IO_ERROR and leaves exactly the old image overlaid with the k octets written (all cut points of a store, which issues two write calls); for ANY medium and fault scripts store/validate/fetch/reset return a non-IO_ERROR code only if every medium call in their log transferred fully.')
LEVEL_NOTE = 'Trusted: Coq kernel; hand model of persistent-storage.c (correspondence-tested under crash and fault enumeration); crash = write-call prefix with octet tearing. Physical media not modelled. No axioms.'

def gen(rng, tier):
    big = tier == 'thorough'
    sizes = [1, 2, 3, 5, 8] if not big else list(range(1, 13))
    for dsize in sizes:
        for ckind in (0, 1, 2):
            csize = 4 if ckind == 2 else 2
            caddr = rng.choice([4, 4096, 2**32 - (csize + dsize) - 4])
            for bs in ([-1, 2, 3] if not big else [-1, 1, 2, 3, dsize, dsize + 1]):   # incl. sizes that do not divide the regions
                # (a) crash points of a full store and of a part store
                off = rng.randrange(dsize); n = rng.randrange(1, dsize - off + 1)
                for store_op, lens in (((0, 11, 0, 0), [dsize, csize]), ((1, 13, off, n), [n, csize])):
                    for k in range(len(lens) + 1):
                        tears = range(lens[k]) if k < len(lens) else [None]
                        for j in tears:
                            wr = [-1] * k + ([j] if j is not None else [])
                            ops = [(0, 5, 0, 0), store_op, (2, 0, 0, 0), (3, 0, 0, 0)]
                            # the first op (an initial full store) consumes two write events
                            yield C10.case(rng, caddr, ckind, 0, dsize, bs, [], [-1, -1] + wr, ops)
                # (b) single failure / short transfer at every call position
                base_ops = [(0, 5, 0, 0), (1, 13, off, n), (2, 0, 0, 0), (3, 0, 0, 0), (4, off, n, 0), (5, 0x55, 0, 0), (2, 0, 0, 0)]
                nreads = 2 * (dsize + 3) + 8; nwrites = 2 * (dsize + csize) + 6
                for pos in range(0, nreads):
                    for m in (0, 1, 2):
                        yield C10.case(rng, caddr, ckind, 0, dsize, bs, [-1] * pos + [m], [], base_ops)
                for pos in range(0, nwrites):
                    for m in (0, 1, 2):
                        yield C10.case(rng, caddr, ckind, 0, dsize, bs, [], [-1] * pos + [m], base_ops)
    # (c) the same crash points for regions whose last octet is 0xffffffff (address + size = 2^32: every 32-bit end computation wraps)
    for dsize in sizes:
        for ckind in (0, 1, 2):
            csize = 4 if ckind == 2 else 2
            caddr = 2**32 - (csize + dsize)
            for bs in ([-1, 2] if not big else [-1, 1, 2, 3, dsize]):
                off = rng.randrange(dsize); n = rng.randrange(1, dsize - off + 1)
                for store_op, lens in (((0, 11, 0, 0), [dsize, csize]), ((1, 13, off, n), [n, csize])):
                    for k in range(len(lens) + 1):
                        tears = range(lens[k]) if k < len(lens) else [None]
                        for j in tears:
                            wr = [-1] * k + ([j] if j is not None else [])
                            ops = [(0, 5, 0, 0), store_op, (2, 0, 0, 0), (3, 0, 0, 0)]
                            yield C10.case(rng, caddr, ckind, 0, dsize, bs, [], [-1, -1] + wr, ops)

def nontrivial(c):
    return True
