from common import *
ID = 'C13'
TRANSLATORS = [('consts2coq.py', ['coq/Gen/Consts.v'])]
GEN_FILES = ['coq/Gen/Consts.v']
COQ_TARGETS = ['Properties_C13.vo', 'Proof/ConstsVarint.vo']
HARNESS_MODS = ['lenp']
RULE = ('cases per encoder entry point (lenp.m2s memory->sink, lenp.b2s buffer->sink, lenp.b2sn first n unread->sink, lenp.c2s chunk list->sink, lenp.menc / lenp.benc / '
        'lenp.bencn / lenp.cuse into a prefix object) and decoder (lenp.mfs memory destination incl. several consecutive frames on one fragmenting source, lenp.bfs buffer '
        'destination, lenp.d2s source->sink): 6 kinds x lengths 1..1100 sampled densely near 127/128, 255/256, 16383/16384, 65535/65536 and kind maxima +-1 x buffer states '
        '(offset/used/size) x chunk lists with empty chunks and a non-zero active index x destination capacities n-1, n, n+1 x source fragmentation scripts x sink scripts.  '
        'Observation: octets on the sink / in the prefix object, return value, buffer fields, destination (exact-size heap blocks).  Non-trivial: payload length >= 1.')
TRUSTED_BASE = TB_COMMON + ['Model/Lenp.v hand-written from src/length-prefix.c (kind table incl. codecs as le_bytes/be_bytes; C15 ties bf_set/ref_u16/u32 l/b to those)']
ASSUMPTIONS = ['payload length 0 is outside the property (sink_put_chunk/source_get_chunk refuse a zero count); the model follows the code there',
               'LE/BE 32-bit maximum itself (4 GiB payload) is not executed; refusal at max+1 is']
EXHAUSTIVE = {'quick': False, 'thorough': False}
TECHNIQUE = 'Coq proof (wire = prefix ++ payload for every entry point; decode(encode) round trip over scripted sources via the endpoint theorems) + correspondence'
LEVEL_TEXT = ('Properties_C13.v: every encoder entry point puts prefix(kind, n) ++ designated payload on an accepting sink and reports |prefix| + n; over-long payloads are refused '
              'with nothing emitted; decoding prefix ++ payload ++ rest from any plain source returns the payload and leaves rest; ENOMEM when the destination is too small; for EVERY behaviour script of the sink what reached it is a prefix of prefix ++ payload and a success means all of it (C13_memory_to_sink_any); a fixed-width frame decoded from ANY source into ANY sink hands over exactly the framed octets on success and a prefix otherwise (C13_decode_to_sink_fixed); every entry point returns (C13_encoders_return / C13_decoders_return); decoding into a buffer APPENDS the payload to the filled region and leaves the buffer exactly as it was when the free space is too small (C13_decode_into_buffer, C13_decode_into_buffer_enomem).')
LEVEL_NOTE = 'Trusted: Coq kernel; hand model of length-prefix.c incl. the kind table (correspondence-tested); C15 for the fixed-width codecs. No axioms.'

KMAX = {0: 2**63 - 1, 1: 255, 2: 65535, 3: 2**32 - 1, 4: 65535, 5: 2**32 - 1}
LENS = [1, 2, 3, 126, 127, 128, 129, 254, 255, 256, 257, 1000, 1100]
BIGLENS = [16383, 16384, 16385, 65534, 65535, 65536, 65537]

def data(rng, n):
    b = bytes(rng.randrange(256) for _ in range(min(n, 64)))
    return (b * (n // max(1, len(b)) + 1))[:n]

def prefix(k, n):
    if k == 0:
        out = []
        while True:
            d = n & 0x7f; n >>= 7
            if n == 0: out.append(d); return out
            out.append(d | 0x80)
    if k == 1: return [n & 255]
    if k == 2: return [n & 255, (n >> 8) & 255]
    if k == 3: return [(n >> (8 * i)) & 255 for i in range(4)]
    if k == 4: return [(n >> 8) & 255, n & 255]
    return [(n >> (8 * i)) & 255 for i in (3, 2, 1, 0)]

def rscript(rng, alpha, maxlen):
    return [rng.choice(alpha) for _ in range(rng.randrange(0, maxlen + 1))]

def gen(rng, tier):
    big = tier == 'thorough'
    lens = LENS + [rng.randrange(1, 1101) for _ in range(60 if big else 10)]
    for k in range(6):
        for n in lens + (BIGLENS if big else [16384, 65535, 65536]):
            d = data(rng, n)
            so = rng.randrange(2) if n <= 2000 else 0
            yield 'lenp.m2s %d %d l: %s %d' % (k, so, hexs(d), n)
            yield 'lenp.menc %d %s %d' % (k, hexs(d), n)
            if n <= 1100:
                # buffer states
                pre = rng.randrange(0, 4); post = rng.randrange(0, 4)
                mem = data(rng, pre) + d + data(rng, post)
                size = len(mem); used = pre + n; off = pre
                yield 'lenp.b2s %d %d l: %s %d %d %d' % (k, so, hexs(mem), size, used, off)
                yield 'lenp.benc %d %s %d %d %d' % (k, hexs(mem), size, used, off)
                for m in sorted(set([1, n, max(1, n - 1), n + 1, rng.randrange(1, n + 1)])):
                    yield 'lenp.b2sn %d %d l: %s %d %d %d %d' % (k, so, hexs(mem), size, used, off, m)
                    yield 'lenp.bencn %d %s %d %d %d %d' % (k, hexs(mem), size, used, off, m)
                # chunk lists incl. empty chunks
                cuts = sorted(rng.randrange(0, n + 1) for _ in range(rng.randrange(0, 4)))
                parts = [d[a:b] for a, b in zip([0] + cuts, cuts + [n])]
                triples = []; allmem = b''
                active = rng.randrange(0, 2)
                if active:
                    junk = data(rng, 3); allmem += junk; triples += [3, 3, rng.randrange(0, 4)]
                for p in parts:
                    lead = rng.randrange(0, 3); trail = rng.randrange(0, 3)
                    m = data(rng, lead) + p + data(rng, trail)
                    if len(m) == 0:
                        m = b'\x00'; trail = 1
                    allmem += m; triples += [len(m), lead + len(p), lead]
                yield 'lenp.c2s %d %d l: %d %s %s' % (k, so, active, hexs(allmem), lst(triples))
                yield 'lenp.cuse %d %d %s %s' % (k, active, hexs(allmem), lst(triples))
            # decoding: destination capacities around n, fragmenting source
            if n <= KMAX[k]:
                wire = bytes(prefix(k, n)) + d
                tail = data(rng, rng.randrange(0, 3))
                for cap in (n - 1, n, n + 1):
                    if cap >= 0:
                        alpha = [1, 2, 3, 7, -4, -11, 2000] + ([0] if k != 0 else [])   # a 0-return inside a varint prefix is outside the domain
                        yield 'lenp.mfs %d %d %s %s %d 1' % (k, rng.randrange(2) if n <= 2000 else 0, hexs(wire + tail), lst(rscript(rng, alpha, 6)), cap)
                if n <= 300:
                    premem = data(rng, rng.randrange(0, 5)); free = rng.choice([n - 1, n, n + 1, n + 5])
                    mem = premem + b'\xee' * max(free, 0)
                    if len(mem) > 0:
                        yield 'lenp.bfs %d %d %s %s %s %d %d %d' % (k, rng.randrange(2), hexs(wire + tail), lst(rscript(rng, [1, 2, 5, -4, -11] + ([0] if k != 0 else []), 5)),
                                                                   hexs(mem), len(mem), len(premem), rng.randrange(0, len(premem) + 1))
                    yield 'lenp.d2s %d %d %s %s %d %s' % (k, rng.randrange(2), hexs(wire + tail), lst(rscript(rng, [1, 2, 5, -5], 3)), rng.randrange(2), lst(rscript(rng, [1, 2, 9, -5], 3)))
        # maxima +-1
        mx = KMAX[k]
        for n in (mx - 1, mx, mx + 1):
            if k in (1, 2, 4) and n <= 70000:
                d = data(rng, n)
                yield 'lenp.m2s %d %d l: %s %d' % (k, rng.randrange(2), hexs(d), n)
                yield 'lenp.menc %d %s %d' % (k, hexs(d), n)
                mem = d
                yield 'lenp.b2s %d 0 l: %s %d %d 0' % (k, hexs(mem), n, n)
                yield 'lenp.c2s %d 0 l: 0 %s %s' % (k, hexs(mem), lst([n, n, 0]))
            elif n > mx:
                yield 'lenp.m2s %d 0 l: %s %d' % (k, hexs(b'abcd'), n)
                yield 'lenp.menc %d %s %d' % (k, hexs(b'abcd'), n)
        yield 'lenp.m2s %d 0 l: %s %d' % (k, hexs(b'abcd'), 2**64 - 1)
        if k == 0:
            # varint kind: the largest lengths whose prefix + payload no longer fit ssize_t (SSIZE_MAX-8 .. SSIZE_MAX, 9-octet prefix):
            # refused by the memory-to-sink entry point BEFORE anything is emitted
            for d in range(0, 9):
                n = 2**63 - 1 - d
                yield 'lenp.m2s 0 %d l: %s %d' % (rng.randrange(2), hexs(b'abcd'), n)
    # several consecutive frames on one stream, all fragmentations of short streams
    import itertools
    for k in range(6):
        frames = [b'A', b'BC', b'DEF']
        wire = b''.join(bytes(prefix(k, len(f))) + f for f in frames)
        L = 4 if big else 3
        for n in range(0, L + 1):
            for scr in itertools.product([1, 2, 3, -4] + ([0] if k != 0 else []), repeat=n):
                yield 'lenp.mfs %d %d %s %s 8 3' % (k, rng.randrange(2), hexs(wire), lst(scr))
    # sink faults while encoding
    for _ in range(300 if big else 60):
        k = rng.randrange(6); n = rng.randrange(1, 40); d = data(rng, n)
        yield 'lenp.m2s %d %d %s %s %d' % (k, rng.randrange(2), lst(rscript(rng, [1, 2, 50, 0, -4, -11, -5, -12], 6)), hexs(d), n)

def nontrivial(c):
    return True
