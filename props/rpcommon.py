"""Shared generators for the register-protocol properties C06-C09 (rp.emit / rp.serve cases).
The frame builder below only produces test inputs; verdicts come from the Coq model."""
from common import *

SIZEOF_RPFRAME = 64

def crc16(bs, c=0):
    for b in bs:
        c ^= b
        for _ in range(8):
            c = (c >> 1) ^ 0xA001 if c & 1 else c >> 1
    return c

def slip(bs):
    out = []
    for b in bs:
        if b == 0xC0: out += [0xDB, 0xDC]
        elif b == 0xDB: out += [0xDB, 0xDD]
        else: out.append(b)
    return out + [0xC0]

def varint(n):
    out = []
    while True:
        d = n & 0x7f; n >>= 7
        if n == 0:
            out.append(d); return out
        out.append(d | 0x80)

def be(n, k):
    return [(n >> (8 * (k - 1 - i))) & 0xff for i in range(k)]

def raw_frame(ftype, opts, meta, seq, addr, bsize, payload, version=0, hdcrc=None, plcrc=None):
    """header ++ payload with the checksums the option bits announce (overridable)"""
    motv = (version & 15) | ((ftype & 15) << 4) | ((opts & 15) << 8) | ((meta & 15) << 12)
    base = be(motv, 2) + be(seq, 2) + be(addr, 4) + be(bsize, 4)
    pc = crc16(payload) if plcrc is None else plcrc
    out = list(base)
    if opts & 2:
        hc = crc16(base + (be(pc, 2) if opts & 4 else [])) if hdcrc is None else hdcrc
        out += be(hc, 2)
    if opts & 4:
        out += be(pc, 2)
    return out + list(payload)

def wire(serial, raw):
    return slip(raw) if serial else varint(len(raw)) + list(raw)

def good_frame(rng, serial, ftype=None, w16=None, maxwords=12, meta=None):
    """a frame a conforming peer could have sent on this transport"""
    ftype = rng.choice([0, 0, 1, 2, 2, 3, 15]) if ftype is None else ftype
    w16 = rng.randrange(2) if w16 is None else w16
    unit = 2 if w16 else 1
    seq = rng.choice([0, 1, 0xffff, 0xc0db, rng.randrange(65536)])
    addr = rng.choice([0, 64, 100, 0xc0dbdcdd, 0xffffffff, rng.randrange(2**32)])
    n = rng.choice([0, 1, 1, 2, 3, rng.randrange(maxwords + 1)])
    payload = []
    if ftype == 0:
        bsize = n
        m = 0
    elif ftype == 15:
        bsize = 0; m = rng.choice([1, 2]); w16 = 0; seq = 0; addr = 0
    elif ftype in (1, 3):
        m = rng.randrange(12) if meta is None else meta
        if m == 0:
            if ftype == 3: n = 0
            payload = special_octets(rng, n * unit); bsize = n
        elif m in (4, 5, 7, 8, 9, 10):
            payload = be(rng.randrange(2**32), 4); bsize = 4; w16 = 0
        else:
            bsize = 0; w16 = 0
    else:
        m = 0
        payload = special_octets(rng, n * unit); bsize = n
    opts = (1 if w16 else 0) | (2 if serial else 0) | (4 if serial and payload else 0)
    return raw_frame(ftype, opts, m, seq, addr, bsize, payload)

def special_octets(rng, n):
    mode = rng.randrange(4)
    if mode == 0:
        return [rng.choice([0xC0, 0xDB, 0xDC, 0xDD, 0x00, 0xff]) for _ in range(n)]
    return [rng.randrange(256) for _ in range(n)]

def verdicts(rng, k):
    out = []
    for _ in range(k):
        st = rng.choice([0, 0, 0, rng.randrange(12)])
        out += [st, rng.choice([0, 0x12345678, 0xffffffff, rng.randrange(2**32)]), rng.randrange(256)]
    return out

def serve_line(serial, mem16, soct, bs, allocscript, stream, verd):
    return 'rp.serve %d %d %d %d %s %s %s' % (serial, mem16, soct, bs, lst(allocscript), hexs(stream), lst(verd))

def emit_line(serial, mem16, seq, kind, ftype, fseq, addr, n, val, payload):
    return 'rp.emit %d %d %d %d %d %d %d %d %d %s' % (serial, mem16, seq, kind, ftype, fseq, addr, n, val, hexs(payload))

EMIT_KINDS = [0, 1, 2, 3, 4] + list(range(11, 22)) + [30]

def gen_emit(rng, count):
    addrs = [0, 1, 64, 100, 0xc0, 0xdb, 0xc0dbdcdd, 0xdbdcc0dd, 0x7fffffff, 0x80000000, 0xffffffff]
    seqs = [0, 1, 2, 0xc0, 0xdb00, 0xc0db, 0xfffe, 0xffff]
    # every kind x transport x memory width at boundary addresses / sequence numbers
    for kind in EMIT_KINDS:
        for serial in (0, 1):
            for mem16 in (0, 1):
                for _ in range(count):
                    addr = rng.choice(addrs + [rng.randrange(2**32)])
                    seq = rng.choice(seqs + [rng.randrange(65536)])
                    fseq = rng.choice(seqs + [rng.randrange(65536)])
                    ftype = rng.choice([0, 2, 0, 2, 1, 3, 15])
                    val = rng.choice(addrs + [rng.randrange(2**32)])
                    if kind == 30:
                        val = rng.choice([1, 2])
                    unit = 2 if (kind == 3 or (kind == 4 and mem16)) else 1
                    # lengths crossing the varint boundary (header 12 + payload around 128) and small ones
                    n = rng.choice([0, 1, 2, 3, 5, 57, 58, 59, 115, 116, 117, 118, 200, rng.randrange(40)])
                    if kind in (0, 1):
                        n = rng.choice([0, 1, 2, 27, 32, 255, 256, 0xc0, 0xdbc0, 2**32 - 1, rng.randrange(2**32)])
                    if kind == 4 and ftype in (2, 3, 15) and rng.random() < 0.7:
                        n = 0
                    payload = special_octets(rng, n * unit) if kind in (2, 3, 4) else []
                    yield emit_line(serial, mem16, seq, kind, ftype, fseq, addr, n, val, payload)

def mutate(rng, raw):
    """damage a raw frame: bit flips, bursts, truncation, extension"""
    raw = list(raw)
    m = rng.randrange(6)
    if m == 0 and raw:
        i = rng.randrange(len(raw) * 8); raw[i // 8] ^= 1 << (i % 8)
    elif m == 1 and raw:
        for _ in range(2):
            i = rng.randrange(len(raw) * 8); raw[i // 8] ^= 1 << (i % 8)
    elif m == 2 and raw:
        L = rng.randrange(2, 17); s = rng.randrange(len(raw) * 8)
        for i in range(s, min(s + L, len(raw) * 8)):
            if i in (s, s + L - 1) or rng.randrange(2):
                raw[i // 8] ^= 1 << (i % 8)
    elif m == 3:
        raw = raw[:rng.randrange(len(raw) + 1)]
    elif m == 4:
        raw += [rng.randrange(256) for _ in range(rng.randrange(1, 4))]
    else:
        raw = [rng.randrange(256) for _ in range(rng.randrange(0, 24))]
    return raw

def gen_serve(rng, count, bad=0.3, blocksizes=None, maxwords=12):
    for _ in range(count):
        serial = rng.randrange(2); mem16 = rng.randrange(2); soct = rng.randrange(2)
        bs = rng.choice(blocksizes or [128, 128, 65, 66, 77, 80, 81, 96, 100, 256])
        stream = []; nfr = rng.randrange(1, 5)
        for _ in range(nfr):
            raw = good_frame(rng, serial, w16=(mem16 if rng.random() < 0.8 else 1 - mem16), maxwords=maxwords)
            if rng.random() < bad:
                raw = mutate(rng, raw)
            stream += wire(serial, raw)
        if rng.random() < 0.1:
            stream = stream[:rng.randrange(len(stream) + 1)]
        if not stream:
            stream = [0xC0] if serial else [0]
        allocscript = [rng.choice([1, 1, 1, 0]) for _ in range(rng.randrange(0, 4))]
        yield serve_line(serial, mem16, soct, bs, allocscript, stream, verdicts(rng, nfr))
        # damage on the WIRE (after framing): a broken SLIP escape (ESC followed by an octet that is neither ESC_END nor ESC_ESC) or a
        # stray octet at any position - the receiver's channel-error paths must release what the sink had allocated
        if rng.random() < 0.35:
            w = list(stream); pos = rng.randrange(len(w) + 1)
            ins = [0xDB, rng.choice([0x00, 0x41, 0xC0, 0xDB, 0xDE, 0xFF])] if serial else [rng.choice([0x80, 0xFF, 0x00, 0x7F])]
            w[pos:pos] = ins
            yield serve_line(serial, mem16, soct, bs, allocscript, w, verdicts(rng, nfr + 1))

def any_frame(rng, maxpl=12):
    """every combination of the option bits (also ones no conforming sender uses on the transport), all types and codes"""
    ftype = rng.choice([0, 1, 2, 3, 15, 0, 2, rng.randrange(16)])
    opts = rng.randrange(8) if rng.random() < 0.9 else rng.randrange(16)
    meta = 0 if ftype in (0, 2) and rng.random() < 0.9 else rng.randrange(16)
    if ftype == 15 and rng.random() < 0.8: meta = rng.choice([1, 2])
    unit = 2 if opts & 1 else 1
    n = rng.choice([0, 1, 2, 3, rng.randrange(maxpl + 1)])
    payload = special_octets(rng, n * unit) if ftype != 0 or rng.random() < 0.1 else []
    if rng.random() < 0.1: payload = payload + [rng.randrange(256)]
    bsize = n if rng.random() < 0.85 else rng.choice([0, n + 1, max(0, n - 1), 2 * n, 1000, 2**32 - 1])
    plcrc = None if rng.random() < 0.8 else rng.randrange(65536)
    hdcrc = None if rng.random() < 0.9 else rng.randrange(65536)
    version = 0 if rng.random() < 0.95 else rng.randrange(16)
    return raw_frame(ftype, opts, meta, rng.randrange(65536), rng.choice([0, 100, rng.randrange(2**32)]), bsize, payload,
                     version=version, hdcrc=hdcrc, plcrc=plcrc)

def gen_serve_opts(rng, count):
    for _ in range(count):
        serial = rng.randrange(2); mem16 = rng.randrange(2); soct = rng.randrange(2)
        bs = rng.choice([128, 256, 100])
        stream = []; nfr = rng.randrange(1, 4)
        for _ in range(nfr):
            stream += wire(serial, any_frame(rng))
        yield serve_line(serial, mem16, soct, bs, [], stream, verdicts(rng, nfr))

def gen_serve_bounds(rng, blocksizes):
    """every frame length around the receive limit; every read size around the transmit limit"""
    for bs in blocksizes:
        room = bs - SIZEOF_RPFRAME
        for serial in (0, 1):
            for mem16 in (0, 1):
                unit = 2 if mem16 else 1
                hl = 14 if serial else 12
                # read requests around the transmit limit
                if room >= hl:
                    lim = (room - hl) // unit
                    wraps = [b + d for b in (2**31, 2**30, 2**16, 2**24) for d in (0, 1, max(0, lim - 1), lim, lim + 1)] + [2**31 - 1, 2**32 - 2, 2**32 - 1 - lim]
                    for n in sorted(set([0, 1, max(0, lim - 1), lim, lim + 1, lim + 2, room // unit, room // unit + 1, (bs - 64) // unit, 2**32 - 1] + wraps)):
                        raw = raw_frame(0, (1 if mem16 else 0) | (2 if serial else 0), 0, rng.randrange(65536), rng.randrange(2**32), n, [])
                        yield serve_line(serial, mem16, rng.randrange(2), bs, [], wire(serial, raw), verdicts(rng, 1))
                    # ... and with the other checksum option bits (a read request may announce a payload checksum for its empty payload: the
                    # header is then longer and the room for the reply smaller), on both transports
                    for opts in (0, 2, 4, 6):
                        hlx = 12 + (2 if opts & 2 else 0) + (2 if opts & 4 else 0)
                        if room < hlx:
                            continue
                        limx = (room - hlx) // unit
                        for n in sorted(set([max(0, limx - 1), limx, limx + 1, limx + 2, lim, lim + 1])):
                            raw = raw_frame(0, (1 if mem16 else 0) | opts, 0, rng.randrange(65536), rng.randrange(2**32), n, [])
                            yield serve_line(serial, mem16, rng.randrange(2), bs, [], wire(serial, raw), verdicts(rng, 1))
                # write requests whose frame length is around the receive limit
                for total in range(max(0, room - 3), room + 4):
                    hl2 = 16 if serial else 12
                    pl = total - hl2
                    if pl < 0:
                        raw = [rng.randrange(256) for _ in range(total)]
                    else:
                        if mem16 and pl % 2: pl -= 1
                        payload = special_octets(rng, pl)
                        raw = raw_frame(2, (1 if mem16 else 0) | (6 if serial and pl else 2 if serial else 0), 0, rng.randrange(65536),
                                        rng.randrange(2**32), pl // unit, payload)
                    for allocs in ([], [0]):
                        yield serve_line(serial, mem16, rng.randrange(2), bs, allocs, wire(serial, raw), verdicts(rng, 1))
                    # the same frame length with the other checksum-option combinations (whatever the transport usually sends)
                    for opts in (0, 2, 4, 6):
                        hl3 = 12 + (2 if opts & 2 else 0) + (2 if opts & 4 else 0)
                        pl3 = total - hl3
                        if pl3 < 0:
                            continue
                        if mem16 and pl3 % 2: pl3 -= 1
                        raw3 = raw_frame(2, (1 if mem16 else 0) | opts, 0, rng.randrange(65536), rng.randrange(2**32), pl3 // unit, special_octets(rng, pl3))
                        yield serve_line(serial, mem16, rng.randrange(2), bs, [], wire(serial, raw3), verdicts(rng, 1))
        # short and empty frames
        for serial in (0, 1):
            for L in range(0, 17):
                raw = good_frame(rng, serial, ftype=0)[:L]
                yield serve_line(serial, rng.randrange(2), rng.randrange(2), bs, [rng.randrange(2)], wire(serial, raw) + wire(serial, good_frame(rng, serial)), verdicts(rng, 2))

def gen_serve_verdicts(rng, count):
    """every request kind x every backend verdict x both transports"""
    for serial in (0, 1):
        for mem16 in (0, 1):
            for w16 in (0, 1):
                for ftype in (0, 2):
                    for st in range(12):
                        for _ in range(count):
                            raw = good_frame(rng, serial, ftype=ftype, w16=w16, maxwords=20)
                            v = [st, rng.choice([0, 0xc0dbdcdd, 0xffffffff, rng.randrange(2**32)]), rng.randrange(256)]
                            yield serve_line(serial, mem16, rng.randrange(2), rng.choice([128, 256]), [], wire(serial, raw), v)

def with_lending(lines):
    """every length-prefix (TCP) rp.serve case is also served from a source that lends a transfer buffer (getbuffer extension; 5 and
    64 octets): the plumbing then hands the frame to the receive sink in CHUNKS that may exceed the room left in the block"""
    for l in lines:
        yield l
        t = l.split(' ')
        if t[0] == 'rp.serve' and t[1] == '0':
            for soct in ('2', '3'):
                yield ' '.join(t[:3] + [soct] + t[4:])
