from common import *
from regcommon import *
import C01, C02
ID = 'C05'
TRANSLATORS = [('consts2coq.py', ['coq/Gen/Consts.v'])]
GEN_FILES = ['coq/Gen/Consts.v']
COQ_TARGETS = ['Properties_C05.vo', 'Proof/ConstsReg.vo']
HARNESS_MODS = ['reg']
RULE = ('reg.run cases (see C01): histories of 50-400 checked operations (typed set, bit set, bit clear, block write, sanitise) over generated well-formed tables with operands biased to the constraint '
        'boundaries and block writes overlapping 1-3 registers partially; out-of-band corruption (random words, NaN halves, single-word damage of multi-word registers) before sanitise on tables whose registers '
        'use trivial/min/max/range/callback constraints.  After every operation: result class, every word of every area, touched flags; every register is read back with get at the end and after each sanitise.')
TRUSTED_BASE = C01.TRUSTED_BASE
ASSUMPTIONS = C02.ASSUMPTIONS
EXHAUSTIVE = {'quick': False, 'thorough': False}
NO_SHRINK = True
TECHNIQUE = 'Coq proof (constraint invariant preserved by every checked operation by induction over histories; refused operations change nothing; sanitise re-establishes it) + correspondence on long histories'
LEVEL_TEXT = ("Theorems in Properties_C05.v about Model/RegTable.v: the invariant 'initialised, areas and entries ordered and disjoint, areas full, every register wholly inside one area, 16-bit words, every decodable register satisfies its constraint' is preserved by EVERY checked operation - typed set, bit set, bit clear, block write across area borders, sanitise - accepted or refused, with well-typed operands, and therefore by every history of them (induction over the history); it is ESTABLISHED by every successful initialisation of a plain table, after which every register reads its default (C05_invariant_established_by_init); it is RE-ESTABLISHED by a successful sanitise after ARBITRARY out-of-band corruption of the stored words: registers whose content decodes and satisfies the constraint keep it, all others hold their default, all touched marks are cleared (C05_sanitise_after_corruption); under it every value a get delivers satisfies its register's constraint; frame lemma, distinctness of registers, read-after-write for the flat word memory; refused operations change nothing; bit set/clear change exactly the requested bits.  Registers with the always-failing constraint are outside the invariant by construction (their default validates only during initialisation).")
LEVEL_NOTE = 'Trusted: Coq kernel; hand model of registers/core.c (correspondence-tested on long histories incl. corruption + sanitise); validator callbacks assumed pure. No axioms.'

def gen0(rng, tier):
    big = tier == 'thorough'
    for it in range(2000 if big else 200):
        tab = family_table(rng)
        for tries in range(5):
            if tab.entries:
                break
            tab = family_table(rng)
        if not tab.entries:
            continue
        sanitise_part = it % 2 == 0
        if sanitise_part:
            # sanitise part: no always-fail constraints
            tab.entries = [e if e[3] != 1 else (e[0], e[1], e[2], 0, 0, 0) for e in tab.entries]
        lo, hi = tab.window()
        ops = [(0,)]
        ne = len(tab.entries)
        for _ in range(rng.choice([50, 100, 200, 400 if big else 150])):
            c = rng.choice([1, 1, 1, 4, 5, 6, 6, 6, 8] + ([10, 10] if sanitise_part else []))
            i = rng.randrange(ne); e = tab.entries[i]; t = e[0]
            if c == 1:
                v = rng.choice(boundary_values(rng, t, (e[3], e[4], e[5]), 2))
                ops.append((1, i, t if rng.random() < 0.9 else rng.randrange(8), v))
            elif c in (4, 5):
                ops.append((c, i, t if rng.random() < 0.8 else rng.randrange(8), rng.choice([1, 2, 0x8000, 0xff, rng.randrange(1 << TBITS[t])])))
            elif c == 6:
                addr = max(0, e[2] - rng.randrange(0, 3)); n = rng.randrange(1, 7)
                ws = [rng.choice([0, 0xffff, rng.randrange(65536)]) for _ in range(n)]
                ops.append((6, addr, n) + tuple(ws))
            elif c == 8:
                ops.append((8,))
                for j in range(ne):
                    ops.append((3, j))
            else:
                ai = rng.randrange(len(tab.areas)); a = tab.areas[ai]
                if a[1] > 0:
                    ops.append((10, ai, rng.randrange(a[1]), rng.choice([0, 0xffff, 0x7ff0, 0x7f80, 0xfff8, 1, rng.randrange(65536)])))
        ops.append((8,))
        for j in range(ne):
            ops.append((3, j))
        yield tab.line(ops)

    for l in stale_state_histories(rng, 300 if big else 40):
        yield l

def nontrivial(c):
    return True

def gen(rng, tier):
    yield from gen0(rng, tier)
    # histories over tables whose highest area ends at 2^32
    yield from at_top(gen0, rng, tier, 200 if tier == 'thorough' else 25)
