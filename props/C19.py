from common import *
ID = 'C19'
TRANSLATORS = []
COQ_TARGETS = ['Properties_C19.vo']
HARNESS_MODS = ['ring']
RULE = ('case = ring.hist <capacity> <element bits 8|16|32> <ops>: init on an exact-size heap block, then a history of put/get/clear/override; '
        'observation after EVERY call: value returned by get, size, empty, full, the old-to-new and the new-to-old iterator sequences.  '
        'Generation: explicit-state exploration for capacities 1..4 over a two-value alphabet - every reachable (head, tail, override, content) '
        'state is reached by a shortest path and every operation applied there; plus random long histories at capacities up to 64 for the three '
        'element types (library octet_ring and harness instantiations of the macros for uint16_t / uint32_t).  Non-trivial: history non-empty.')
TRUSTED_BASE = TB_COMMON + ['Model/Ring.v is hand-written from include/ufw/ring-buffer.h + ring-buffer-iter.h + src/ring-buffer-iter.c; tie = correspondence']
ASSUMPTIONS = ['capacity >= 1 (capacity 0 divides by zero in the C code and is excluded as in the property)']
EXHAUSTIVE = {'quick': True, 'thorough': True}
TECHNIQUE = 'Coq proof (refinement of a bounded queue; iterators = abstraction / its reverse) + correspondence on exhaustive small-capacity exploration and random histories'
LEVEL_TEXT = ('Properties_C19.v: refinement theorem - for every capacity >= 1 and every operation sequence from init the outputs of get equal the bounded '
              'queue specification and the abstraction commutes with every step; size/empty/full report the queue state; both iterators yield the queue '
              'content (resp. reversed) in exactly size steps.  Model tied to the C macros by correspondence.')
LEVEL_NOTE = 'Trusted: Coq kernel; hand model of the ring-buffer macros (correspondence-tested); harness. No axioms.'

def sim_states(cap):
    """BFS over abstract states (queue content tuple, override) with 2-value alphabet"""
    ops = [(0, 1), (0, 2), (1, 0), (2, 0), (3, 0), (3, 1)]
    start = ((), False, 0)   # queue, override, head position (to distinguish physical layouts)
    paths = {start: []}
    todo = [start]
    while todo:
        st = todo.pop(0)
        q, ov, h = st
        for o in ops:
            if o[0] == 0:
                if len(q) < cap: ns = (q + (o[1],), ov, (h + 1) % cap)
                elif ov: ns = (q[1:] + (o[1],), ov, (h + 1) % cap)
                else: ns = st
            elif o[0] == 1: ns = (q[1:], ov, h)
            elif o[0] == 2: ns = ((), ov, h)
            else: ns = (q, bool(o[1]), h)
            if ns not in paths:
                paths[ns] = paths[st] + [o]; todo.append(ns)
    return paths, ops

def flat(ops):
    return lst([x for o in ops for x in o])

def gen(rng, tier):
    big = tier == 'thorough'
    for cap in range(1, 5):
        paths, ops = sim_states(cap)
        for st, path in sorted(paths.items()):
            for o in ops:
                yield 'ring.hist %d 8 %s' % (cap, flat(path + [o]))
                if big:
                    yield 'ring.hist %d 16 %s' % (cap, flat(path + [o, (1, 0)]))
    for _ in range(3000 if big else 300):
        cap = rng.choice([1, 2, 3, 5, 7, 8, 16, 33, 64])
        w = rng.choice([8, 16, 32])
        ops = []
        for _ in range(rng.choice([10, 50, 200, 600 if big else 200])):
            c = rng.choice([0, 0, 0, 0, 1, 1, 1, 2, 3]) if rng.random() < 0.7 else rng.choice([0, 0, 0, 1])
            x = rng.randrange(2**w) if c == 0 else rng.randrange(2)
            if c == 2 and rng.random() < 0.7:
                c = 0; x = rng.randrange(1, 2**w)
            ops.append((c, x))
        yield 'ring.hist %d %d %s' % (cap, w, flat(ops))

def nontrivial(c):
    return not c.endswith('l:')
