from common import *
import itertools
ID = 'C12'
TRANSLATORS = [('consts2coq.py', ['coq/Gen/Consts.v'])]
GEN_FILES = ['coq/Gen/Consts.v']
COQ_TARGETS = ['Properties_C12.vo', 'Proof/ConstsSlip.vo']
HARNESS_MODS = ['slip']
RULE = ('cases: slip.spec sof payload (encoder output == specification of the encoding, within RFC1055_WORST_CASE) / slip.enc with source and sink fault '
        'scripts and both driver styles / slip.dec sof start-state stream scripts styles ncalls (repeated decode calls until the stream is exhausted; per call: '
        'return code - exact errno for passed-through errors -, octets emitted in that call, source position, decoder state).  Generation: all strings over '
        '{END, ESC, ESC_END, ESC_ESC, 0x41} up to length 6 (quick) / 8 (thorough) as payloads, as raw decoder input from each start state, and as garbage '
        'prefixes followed by well-formed frames; every one of the 256 octet values after ESC, as data and next to END in every decoder state; random raw decoder input over the full alphabet; random full-alphabet payloads up to 1 KiB; a source or sink error injected at every position.  '
        'Non-trivial: non-empty stream/payload.')
TRUSTED_BASE = TB_COMMON + ['Model/Slip.v hand-written from src/rfc1055.c; tie = correspondence']
ASSUMPTIONS = ['drivers returning 0 from a single-octet call are outside the modelled domain (rfc1055_decode_octet would use an uninitialised octet)']
EXHAUSTIVE = {'quick': True, 'thorough': True}
TECHNIQUE = 'Coq proof (round trip, delimiter uniqueness, length bound, resynchronisation by induction over octet lists) + correspondence incl. exhaustive control-alphabet strings and fault injection'
LEVEL_TEXT = ('Properties_C12.v: for every payload and both modes decode(encode p ++ r) delivers p and leaves r; concatenated frames decode in order; END occurs '
              'only as delimiter; length <= 2n+1 (2n+2) with equality for all-control payloads; resynchronisation after any garbage (classic: after the next END; '
              'start-of-frame: at most the first non-empty frame lost); invalid escape = EILSEQ; no amplification; the operational decoder over plain endpoints equals the pure one; under EVERY behaviour script of source and sink (short answers, EINTR/EAGAIN, hard errors at any position) one call of the operational decoder returns, consumes a prefix of the stream, appends to the sink, never emits more octets than it consumed, reports besides its own EILSEQ only error codes a driver produced, and REFINES the structural decoder: on exactly the octets it consumed the structural decoder gives the same verdict, output and state, with at most the octet in flight undelivered when a driver fails (C12_decode_refines); one call of the operational encoder under every source script and every taking-or-failing sink puts a prefix of the specified encoding of what it took from the source on the sink, the whole frame on success (C12_encode_under_faults).')
LEVEL_NOTE = 'Trusted: Coq kernel; hand model of rfc1055.c (correspondence-tested incl. error injection at every position); harness. No axioms.'

ALPHA = [0xc0, 0xdb, 0xdc, 0xdd, 0x41]

def enc(sof, p):
    out = [0xc0] if sof else []
    for d in p:
        out += [0xdb, 0xdd] if d == 0xdb else [0xdb, 0xdc] if d == 0xc0 else [d]
    return out + [0xc0]

def gen(rng, tier):
    big = tier == 'thorough'
    L = 8 if big else 6
    for n in range(0, L + 1):
        for t in itertools.product(ALPHA, repeat=n):
            if n >= 7 and rng.random() < 0.5:
                continue
            sof = rng.randrange(2)
            yield 'slip.spec %d %s' % (sof, hexs(t))
            yield 'slip.trace %d %d %s' % (rng.randrange(2), rng.randrange(3), hexs(t))
            # as raw decoder input from a start state
            yield 'slip.dec %d %d %s l: l: %d %d %d' % (sof, rng.randrange(3), hexs(t), rng.randrange(2), rng.randrange(2), n + 2)
            if n <= (5 if big else 4):
                for sof2 in (0, 1):
                    for st in (0, 1, 2):
                        yield 'slip.dec %d %d %s l: l: 1 0 %d' % (sof2, st, hexs(t), n + 2)
                    # garbage prefix, then a delimiter and well-formed frames
                    frames = [[0x41], [], [0xc0, 0xdb], [0x42, 0x43]]
                    stream = list(t) + [0xc0] + sum((enc(sof2, f) for f in frames), [])
                    yield 'slip.dec %d %d %s l: l: 1 1 %d' % (sof2, 0 if sof2 else 2, hexs(stream), len(stream) + 2)
                    yield 'slip.trace %d %d %s' % (sof2, rng.randrange(3), hexs(stream))
                    stream = list(t) + sum((enc(sof2, f) for f in frames), [])
                    yield 'slip.dec %d %d %s l: l: 0 0 %d' % (sof2, 0 if sof2 else 2, hexs(stream), len(stream) + 2)
    for _ in range(2000 if big else 200):
        n = rng.choice([1, 2, 10, 100, 1023, 1024])
        p = [rng.choice(ALPHA + [rng.randrange(256)] * 3) for _ in range(n)]
        sof = rng.randrange(2)
        yield 'slip.spec %d %s' % (sof, hexs(p))
        e = enc(sof, p) + enc(sof, p[: n // 2])
        yield 'slip.dec %d %d %s l: l: %d %d 3' % (sof, 0 if sof else 2, hexs(e), rng.randrange(2), rng.randrange(2))
    # every octet value in every role of the raw decoder input: after ESC, as data, before / after END, in all three states
    for x in range(256):
        for sof in (0, 1):
            for st in (0, 1, 2):
                yield 'slip.dec %d %d %s l: l: %d %d 4' % (sof, st, hexs([0x61, 0xdb, x, 0x62, 0xc0, 0x63, 0xc0]), x & 1, (x >> 1) & 1)
            yield 'slip.dec %d %d %s l: l: 1 0 4' % (sof, 0 if sof else 2, hexs([0xc0, x, 0xc0, 0xdb, x, 0xc0, x, x, 0xc0]))
            yield 'slip.trace %d %d %s' % (sof, x % 3, hexs([x, 0xdb, x, 0xc0, 0x41, 0xdb, x, 0xc0, 0xc0, x, 0xc0]))
        yield 'slip.spec %d %s' % (x & 1, hexs([x, 0xc0, x, 0xdb, x]))
    # random raw decoder input over the full octet alphabet (control octets frequent)
    for _ in range(3000 if big else 400):
        n = rng.choice([1, 2, 3, 5, 9, 17, 40])
        raw = [rng.choice([0xc0, 0xdb, 0xdc, 0xdd, rng.randrange(256), rng.randrange(256), rng.randrange(0xd8, 0xe2)]) for _ in range(n)]
        sof = rng.randrange(2)
        yield 'slip.dec %d %d %s l: l: %d %d %d' % (sof, rng.randrange(3), hexs(raw), rng.randrange(2), rng.randrange(2), n + 2)
        yield 'slip.trace %d %d %s' % (sof, rng.randrange(3), hexs(raw))
    # error injection at every position (source and sink), encode and decode
    errs = [5, 32, 12, 84, 4, 11, 61]
    for _ in range(400 if big else 60):
        n = rng.randrange(1, 9)
        p = [rng.choice(ALPHA) for _ in range(n)]
        sof = rng.randrange(2)
        e = enc(sof, p)
        for pos in range(len(e) + 2):
            er = rng.choice(errs)
            scr = lst([1] * pos + [-er])
            so, ko = rng.randrange(2), rng.randrange(2)
            yield 'slip.dec %d %d %s %s l: %d %d 3' % (sof, 0 if sof else 2, hexs(e + e), scr, so, ko)
            yield 'slip.dec %d %d %s l: %s %d %d 3' % (sof, 0 if sof else 2, hexs(e + e), scr, so, ko)
            yield 'slip.enc %d %s %s l: %d %d' % (sof, hexs(p), scr, so, ko)
            big_give = 9
            yield 'slip.enc %d %s l: %s %d %d' % (sof, hexs(p), lst([big_give] * pos + [-er]), so, ko)

def nontrivial(c):
    return ' h: ' not in c
