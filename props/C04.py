from common import *
from regcommon import *
import C01, C02
ID = 'C04'
TRANSLATORS = [('consts2coq.py', ['coq/Gen/Consts.v']), ('reg2coq.py', ['coq/Gen/RegLeafGen.v'])]
GEN_FILES = ['coq/Gen/Consts.v', 'coq/Gen/RegLeafGen.v']
COQ_TARGETS = ['Properties_C04.vo', 'Proof/ConstsReg.vo', 'Proof/RegLeafT.vo']
HARNESS_MODS = ['reg']
RULE = ('reg.run cases (see C01) starting with register_init on arbitrary - mostly ill-formed - descriptions: 0-3 areas with bases/sizes from a small grid (adjacent, overlap by one word, reversed order, equal '
        'bases, size 0), 0-5 registers of all sizes at every placement incl. straddling area ends and holes, defaults inside/outside the constraint, skip-defaults and no-write-callback areas; then one each of '
        'set, get, bit set, block write, block read, iteration, sanitise.  Observation: init code and index of the offending area/register, initialised flag, first/last/count of every area, every word, and the '
        'codes of the subsequent operations (UNINITIALISED after a failed init).')
TRUSTED_BASE = C01.TRUSTED_BASE
ASSUMPTIONS = C02.ASSUMPTIONS + ['tables with AREA_HANDLE_MAX areas / REGISTER_HANDLE_MAX entries (the TOO_MANY codes) and NULL table pointers are not generated']
EXHAUSTIVE = {'quick': False, 'thorough': False}
NO_SHRINK = True
TECHNIQUE = 'Coq proof (init succeeds iff the description is well formed; first-error precedence; uninitialised afterwards; post-state) + correspondence over a grid of area and register layouts'
LEVEL_TEXT = ('Theorems in Properties_C04.v about Model/RegTable.v: initialisation succeeds iff there is an area, areas and entries are each ordered and disjoint, and the defaults load - which happens '
              'only if every register lies wholly inside one area (the other failure being a default its own constraint refuses); otherwise the FIRST violated rule is reported in the order no-areas < area order/overlap < '
              'entry order/overlap < entry placement/default with the index of the first offending element (the checks are proved equal to a declarative first-break search); a failed initialisation leaves the table '
              'uninitialised, the flag is set exactly by success, and every operation on an uninitialised table reports UNINITIALISED and changes nothing.  After a successful initialisation of a table whose areas are memory backed (or read/write callback pairs) the table satisfies the invariant of C05, its entries are unchanged and EVERY register reads back its default (C04_post_state) every memory word no register covers is zero (C04_post_state_other_words_zero), and the first/last/count fields of every area describe exactly the contiguous run of registers whose address lies in it (C04_post_state_area_fields).')
LEVEL_NOTE = 'Trusted: Coq kernel; hand model of register_init (correspondence-tested on the layout grid). No axioms. Translator tie: ra_addr_is_part_of and ra_reg_fits_into of src/registers/core.c, translated on every check (tools/reg2coq.py), are proved equal to the membership / fit tests of the model; the pre-repair end-address form is refuted (Proof/RegLeafT.v).'

def gen(rng, tier):
    big = tier == 'thorough'
    bases = [0, 1, 4, 5, 8, 9, 12]
    sizes = [0, 1, 2, 3, 4, 5, 8]
    for _ in range(6000 if big else 1200):
        na = rng.choice([0, 1, 1, 2, 2, 2, 3, 3])
        areas = []
        pos = rng.choice(bases)
        for i in range(na):
            mode = rng.random()
            size = rng.choice(sizes if rng.random() < 0.3 else [2, 3, 4, 5, 8])
            if mode < 0.55 or i == 0:
                base = pos
            elif mode < 0.7:
                base = max(0, pos - 1)            # overlap by one word
            elif mode < 0.8:
                base = max(0, pos - rng.randrange(2, 9))   # reversed / overlapping more
            elif mode < 0.9:
                base = areas[-1][0]               # equal bases
            else:
                base = pos + rng.randrange(1, 4)  # gap
            flags = rng.choice([3, 3, 1, 2, 7, 3])
            kind = rng.choice([MEM, MEM, CUSTOM, MEM_NOWRITE if flags == 1 else MEM])
            areas.append((base, size, flags, kind))
            pos = base + size
        nr = rng.choice([0, 1, 2, 3, 4, 5])
        entries = []
        lo = min([a[0] for a in areas] + [0]); hi = max([a[0] + a[1] for a in areas] + [4])
        addr = rng.randrange(lo, max(lo + 1, hi))
        for i in range(nr):
            t = rng.randrange(8)
            ck = rand_check(rng, t)
            d = acceptable_default(rng, t, ck) if rng.random() < 0.8 else rng.choice(boundary_values(rng, t, ck, 1))
            entries.append((t, d, max(0, addr), ck[0], ck[1], ck[2]))
            step = rng.random()
            if step < 0.6:
                addr += TSIZE[t] + rng.choice([0, 0, 1])
            elif step < 0.75:
                addr += TSIZE[t] - 1               # overlap
            elif step < 0.85:
                addr -= rng.randrange(1, 4)        # order violation
            else:
                addr += TSIZE[t] + rng.randrange(2, 6)
        words = [rng.randrange(65536) for _ in range(sum(a[1] for a in areas))]
        tab = Table(rng.randrange(2), areas, entries, words)
        a0 = areas[0][0] if areas else 0
        ops = [(0,), (1, 0, entries[0][0] if entries else 0, 5), (3, 0), (4, 0, 0, 1), (6, a0, 1, 7), (7, a0, 2), (9, a0, 4), (8,), (0,)]
        yield tab.line(ops)

def defaults_grid(rng):
    """well-formed layouts only: every register type x constraint kind x {area with write callback, without one, skip-defaults,
    callback-backed} x {default satisfies the constraint, violates it, is an undecodable float}: whether the default is loaded - and
    therefore validated - decides the outcome"""
    for t in range(8):
        for ck_kind in (0, 1, 2, 3, 4, 5):
            for (flags, kind) in ((3, MEM), (1, MEM_NOWRITE), (3, MEM_NOWRITE), (7, MEM), (3, CUSTOM), (2, MEM), (7, MEM_NOWRITE)):
                ck = rand_check(rng, t, ck_kind)
                good = acceptable_default(rng, t, ck)
                cands = [good] + [v for v in boundary_values(rng, t, ck, 0)][:6]
                if t >= 6:
                    cands += [(F32 if t == 6 else F64)[9], (F32 if t == 6 else F64)[7], (F32 if t == 6 else F64)[2]]   # NaN, inf, subnormal
                for d in cands:
                    size = TSIZE[t] + 1
                    entries = [(t, d, 8, ck[0], ck[1], ck[2]), (0, 3, 8 + TSIZE[t], 0, 0, 0)]
                    tab = Table(rng.randrange(2), [(8, size, flags, kind)], entries, [rng.randrange(65536) for _ in range(size)])
                    yield tab.line([(0,), (3, 0), (3, 1), (1, 0, t, good), (3, 0)])

# re-initialisation of an edited table (appended by the generator below)
_gen0 = gen
def gen(rng, tier):
    yield from _gen0(rng, tier)
    yield from defaults_grid(rng)
    yield from reinit_histories(rng, 400 if tier == 'thorough' else 60)
    # well-formed and malformed descriptions whose highest area ends at 2^32 (end addresses are not representable in 32 bits)
    yield from at_top(_gen0, rng, tier, 2000 if tier == 'thorough' else 400)
    yield from at_top(lambda r, t: defaults_grid(r), rng, tier, 200)

def nontrivial(c):
    return True
